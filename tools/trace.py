#!/usr/bin/env python3
"""Print the step-by-step trace of an E1 replay file (debug aid)."""
import json, subprocess, sys, os
d = json.load(open(sys.argv[1]))
c = d['case']
n = int(sys.argv[2]) if len(sys.argv) > 2 else 120
print({k: v for k, v in c.items() if k != 'ops'})
print(d['class']); print(d['detail'][:400])
req = json.dumps({"cmd": "case", "scenario": d['scenario'], "case": c})
env = dict(os.environ, VERIF_TRACE="1")
r = subprocess.run(['/verif/harness/target/release/dst', 'worker'], input=req + '\n', capture_output=True, text=True, env=env)
print('\n'.join(r.stderr.split('\n')[:n]))
