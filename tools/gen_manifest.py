#!/usr/bin/env python3
"""Writes /verif/MANIFEST.json from the table below (keeps it schema-valid)."""
import json, subprocess

CHECKS = {
 "C01": ("E1 tcbsim", "exploration", "6 C01",
   "Seeded search over schedules x segment faults x write/read interleavings on two real Tcb objects; byte-exact prefix invariant after every step, bounded-liveness drain afterwards. Sampling, not proof: a clean batch is evidence.",
   "The session loop and Tcp::demux table are a small stub mirroring tcp_session.rs/tcp.rs (the real glue runs in the E2 checks); virtual clock; sample of schedules.",
   "deterministic simulation: seeded discrete-event schedule/fault search with reference-stream oracle"),
 "C03": ("E1 tcbsim", "exploration", "6 C03",
   "As C01 plus closes in every state, old duplicate SYNs, RFC 9293 figure-5 transition monitor around every Tcb call, cross-endpoint sequence invariants, data-before-FIN and release-within-bound oracles.",
   "Transition monitor works at Tcb-call granularity (one call may take several diagram edges); stub glue as C01.",
   "deterministic simulation: seeded schedule/fault search with state-machine monitor and bounded-liveness drain"),
 "C12": ("E1 tcbsim (differential)", "exploration", "6 C12",
   "Each seeded schedule is executed twice with two ISN pairs (dense around 2^32 and 2^31 wrap points) and the ISN-normalised event traces must be identical; plus direct-drive check of the circular comparison primitives against the mathematical order.",
   "Closed-state RSTs with the literal SEQ=0 are lost in both runs (their effect legitimately depends on ISNs).",
   "deterministic simulation: differential replay of one seeded schedule under shifted ISNs"),
 "C17": ("E1 tcbsim (Byzantine peer)", "exploration", "6 C17",
   "Forged segments (all 64 flag combinations, seq/ack around window edges, shrinking windows, payloads) injected between legitimate events of seeded schedules; oracles: no Tcb call unwinds, no data beyond any advertised right edge, provably unacceptable segments have no immediate effect.",
   "Above-window segments that the stack retains in its reordering queue are treated as delayed arrivals (no assertion on their later effect).",
   "deterministic simulation: seeded fault injection of forged segments into simulated connections"),
 "C11": ("E3 fragsim", "exploration", "6 C11",
   "Seeded search over arrival schedules of real fragments (produced by the real fragmenter through MTU chains) into the real Reassembly: permutation, interleaving across datagrams, loss, duplication before and after completion, overlapping pieces, and reassembly timers on a virtual clock; reference interval-set model decides when a datagram must be returned and when a buffer must be gone; returned header and payload are compared byte for byte.",
   "Reassembly is driven directly (the shipped Ipv4::demux builds a fresh Reassembly per packet); the timer task of Ipv4Session::receive is a virtual timer list; datagrams that share a buffer id carry the same payload.",
   "deterministic simulation: seeded arrival/timer schedule search with interval-set reference model"),
}

NOT_APPLICABLE = {
 "C07": "Message/Chunk are single-threaded immutable value types: a pure function of the operation sequence, nothing for a scheduler, clock or fault injector to decide (DESIGN.md section 6).",
 "C08": "Header encode/decode are pure functions of field values/bytes; the quantifier is over inputs only (DESIGN.md section 6).",
 "C09": "IpTable/Ipv4Net/Ipv4Mask are pure sequential data-structure code with no concurrency, time or faults (DESIGN.md section 6).",
 "C10": "fragmentation::fragment is a pure function of (header, payload, MTU); an MTU chain is function composition (DESIGN.md section 6).",
}

PENDING = {k: "not claimed yet: its simulation check is still under construction in /verif/harness (see DESIGN.md section 6); no verdict is offered"
           for k in ["C02","C04","C05","C06","C11","C13","C14","C15","C16","C18","C19","C20"] if k not in CHECKS}

def main():
    import os
    commits = subprocess.run(["git", "-C", "/repo", "log", "--format=%h %s", "b3caa3ac..HEAD"],
                             capture_output=True, text=True).stdout.strip().split("\n")
    hooks = [c.split()[0] for c in commits if c.split(" ", 1)[1].startswith("verif:")]
    checks = []
    for pid, (engine, cat, ref, text, note, tech) in sorted(CHECKS.items()):
        checks.append({
            "property_id": pid,
            "quick_cmd": f"bin/check {pid} --tier quick",
            "thorough_cmd": f"bin/check {pid} --tier thorough",
            "evidence_file": f"/verif/evidence/{pid}.json",
            "replay_cmd_template": f"bin/check {pid} --replay {{path}}",
            "engine": engine,
            "level_claimed": {"category": cat, "text": text, "design_ref": f"DESIGN.md section {ref}"},
            "level_note": note,
            "technique": tech,
        })
    na = [{"property_id": k, "reason": v} for k, v in sorted(NOT_APPLICABLE.items())]
    for k, v in sorted(PENDING.items()):
        na.append({"property_id": k, "reason": v})
    m = {
        "version": 1,
        "setup_cmd": "cd /verif/harness && cp -n /repo/sim/Cargo.lock Cargo.lock 2>/dev/null; CARGO_NET_OFFLINE=true cargo build --release --offline && CARGO_NET_OFFLINE=true cargo build --release --offline --features cksum --target-dir target-cksum",
        "hooks": {
            "guard": "cargo feature `verif` on elvis-core (and `verif = [\"elvis-core/verif\"]` on elvis), off by default",
            "enable": "the harness crate /verif/harness path-depends on /repo/sim/elvis-core and /repo/sim/elvis with features = [\"verif\"]; every check runs `cargo build --release --offline` there first, so it rebuilds from /repo's working tree",
            "baseline_off_cmd": "cd /repo/sim && cargo nextest run --workspace --no-fail-fast --test-threads 8 --offline || cargo test --workspace --no-fail-fast --offline",
            "source_commits": hooks,
            "add_only": True,
        },
        "engines": [
            {"name": "E1 tcbsim", "path": "/verif/harness/src/e1.rs", "serves_properties": ["C01", "C03", "C12", "C17"],
             "kind_free_text": "discrete-event simulator over two real Tcb objects: seeded scheduler picks among writes, reads, clock ticks, deliver-any/drop/duplicate, closes, old SYNs, forged segments"},
            {"name": "E3 fragsim", "path": "/verif/harness/src/e3.rs", "serves_properties": ["C11"],
             "kind_free_text": "discrete-event simulator over the real IPv4 Reassembly: seeded arrival schedules of real fragments with loss/duplication/overlap and a virtual reassembly-timer clock"},
        ],
        "checks": checks,
        "not_applicable": na,
        "notes": "Technique family: deterministic simulation with fault injection. One integer (VERIF_SEED, default 20260923) decides every run; violations are minimised and written as replay files under /verif/replays; known findings and fixed defects are listed in /verif/known_findings.txt. Exit codes: 0 held, 1 violation, 2 harness/build error.",
    }
    json.dump(m, open("/verif/MANIFEST.json", "w"), indent=1)
    print("checks:", len(checks), "not_applicable:", len(na))

if __name__ == "__main__":
    main()
