#!/usr/bin/env python3
"""Writes /verif/MANIFEST.json from the table below (keeps it schema-valid)."""
import json, subprocess

CHECKS = {
 "C01": ("E1 tcbsim + E2 netsim (C01.stack)", "exploration", "6 C01",
   "Seeded search over schedules x segment faults x write/read interleavings on two real Tcb objects; byte-exact prefix invariant after every step, bounded-liveness drain afterwards. Second scenario (C01.stack, engine E2): the same clauses with the real session glue - harness applications directly on Tcp, real TcpSession loop, Tcp::demux, Ipv4, Arp, Pci, Network on virtual time - under unbounded loss, duplication and delays beyond the retransmission timeout, then a fair network: every byte exactly once within a bounded number of retransmission timeouts, then silence on the wire. Sampling, not proof: a clean batch is evidence.",
   "In the E1 scenario the session loop and Tcp::demux table are a small stub mirroring tcp_session.rs/tcp.rs; the C01.stack scenario runs the real ones but cannot read late (the shipped session hands data up eagerly); virtual clock; sample of schedules. A worker that blocks for good (asleep, no CPU time for 30 s) is reported as a deadlock of the code under test.",
   "deterministic simulation: seeded discrete-event schedule/fault search with reference-stream oracle"),
 "C03": ("E1 tcbsim + E2 netsim (C03.stack)", "exploration", "6 C03",
   "As C01 plus closes in every state, old duplicate SYNs, RFC 9293 figure-5 transition monitor around every Tcb call, cross-endpoint sequence invariants, data-before-FIN and release-within-bound oracles. Second scenario (C03.stack, engine E2): the opening clauses through the real tcp.rs (Tcp::open, Tcp::listen, Tcp::demux, session table) - 1..6 connections between two machines, a third opened by both sides at once, shared/separate/wildcard listeners, ARP, addresses and ports varying per run, unbounded loss/duplication/delay; every connection is announced to both applications exactly once, nothing is reset, the wire falls silent.",
   "Transition monitor works at Tcb-call granularity (one call may take several diagram edges); stub glue in E1. The shipped session has no close instruction, so the close clauses are decided in E1 only. A simultaneous open whose SYN meets a port that is not open yet is legitimately refused; nothing but safety is asserted about such a connection.",
   "deterministic simulation: seeded schedule/fault search with state-machine monitor and bounded-liveness drain"),
 "C12": ("E1 tcbsim (differential)", "exploration", "6 C12",
   "Each seeded schedule is executed twice with two ISN pairs (dense around 2^32 and 2^31 wrap points) and the ISN-normalised event traces must be identical; plus direct-drive check of the circular comparison primitives against the mathematical order.",
   "Closed-state RSTs with the literal SEQ=0 are lost in both runs (their effect legitimately depends on ISNs).",
   "deterministic simulation: differential replay of one seeded schedule under shifted ISNs"),
 "C17": ("E1 tcbsim (Byzantine peer) + E2 netsim (C17.stack)", "exploration", "6 C17",
   "Forged segments (all 64 flag combinations, seq/ack around window edges, shrinking windows, payloads) injected between legitimate events of seeded schedules; oracles: no Tcb call unwinds, no data beyond any advertised right edge, SND.WND/WL1/WL2 follow RFC 9293 3.10.7.4 for every segment processed on its own, provably unacceptable segments have no immediate effect. Second scenario (C17.stack, engine E2): the C01.stack scenario (real Tcp, TcpSession, Ipv4, Arp, Pci, Network) with a third machine that forges segments from the peer's address and port into established connections - all 64 flag combinations including RST and SYN, any acknowledgment number and window, text, sequence number 2^30 above or below what the victim expects; the streams must still be delivered completely and exactly once, no legitimate endpoint resets, the wire falls silent.",
   "Above-window segments that the stack retains in its reordering queue are treated as delayed arrivals (no assertion on their later effect). The E2 scenario forges only segments that are unacceptable under every reading (2^30 away from the window) and only into connections both applications know to be established; in-window forgeries legitimately change a stream and are left to E1's per-call oracles.",
   "deterministic simulation: seeded fault injection of forged segments into simulated connections"),
 "C11": ("E3 fragsim", "exploration", "6 C11",
   "Seeded search over arrival schedules of real fragments (produced by the real fragmenter through MTU chains) into the real Reassembly: permutation, interleaving across datagrams, loss, duplication before and after completion, overlapping pieces, and reassembly timers on a virtual clock; reference interval-set model decides when a datagram must be returned and when a buffer must be gone; returned header and payload are compared byte for byte.",
   "Reassembly is driven directly (the shipped Ipv4::demux builds a fresh Reassembly per packet); the timer task of Ipv4Session::receive is a virtual timer list; datagrams that share a buffer id carry the same payload.",
   "deterministic simulation: seeded arrival/timer schedule search with interval-set reference model"),
 "C02": ("E2 netsim", "exploration", "6 C02",
   "The complete real stack (Socket/SocketAPI/Tcp+TcpSession+Tcb/Udp/Ipv4/Arp/Pci/Network) on virtual time with a seeded task scheduler and seeded frame faults (bounded loss, duplication, delay); generated write and read scripts; byte-exact prefix/complete-stream oracle per connection, recv(n) bound, datagram intactness and peer isolation.",
   "Runtime flavour and worker count are represented by seeded poll deferrals on one thread (every order in which ready tasks can start); intra-poll data races of a real multi-thread runtime are out of reach (DESIGN.md section 7).",
   "deterministic simulation: whole stack on paused tokio clock, seeded scheduler and frame-fault hook, stream reference oracle"),
 "C04": ("E2 netsim", "exploration", "6 C04",
   "Generated machine sets with exact / wildcard / limited-broadcast / duplicate UDP bindings on four recording applications per machine, with and without ARP; every delivery is predicted by a small reference model from the frames seen on the wire and compared both ways (exactly-once, nobody else, true source in Control).",
   "Delivery of a machine's own broadcast frame to itself is neither required nor forbidden; one tap per network per machine.",
   "deterministic simulation: seeded configurations, frame delays and task orders with reference binding model"),
 "C05": ("E2 netsim", "exploration", "6 C05",
   "Real Network/Pci on virtual time: generated networks (MTU, constant/variable latency and throughput) and taps, concurrent send_pci plans around the MTU boundary; exact-delivery, isolation, DemuxInfo, MAC uniqueness and exact virtual-time lower bounds for latency and throughput serialisation.",
   "Timing is checked on tokio's paused clock; the latency/throughput random draws come from the simulator.",
   "deterministic simulation: seeded configurations and task orders on virtual time with exact timing oracle"),
 "C06": ("E2 netsim", "fault_enumeration", "6 C06",
   "Real Arp/Ipv4/Pci with generated claims, subnets and gateways and groups of concurrent resolvers; loss patterns over ARP frames 'first k requests lost then m replies lost' (k+m<=10, drawn per run) plus random subsets, delays (up to 700 ms, beyond the resend interval) and duplicates through the frame hook, and resolvers that are abandoned part-way; resolved MAC must be the owner's or the gateway's, success when an exchange got through (by arrival times), bounded failure, agreement of concurrent resolvers, nobody hangs.",
   "Patterns are drawn per run rather than listed exhaustively per topology; every address claimed by at most one machine.",
   "deterministic simulation: fault enumeration over ARP request/reply loss patterns with seeded schedules"),
 "C13": ("E2 netsim", "exploration", "6 C13",
   "Real run_internet / run_internet_with_timeout / Machine::start / Shutdown with harness applications that are slow to initialise, send as early as the contract allows, request shutdown early/late/simultaneously with distinct statuses or never return; barrier order by the global event counter, status = first request in event order, timeout bound in virtual time.",
   "Initialisation of built-in protocols is not observable; the barrier is checked against the harness applications' initialisation events.",
   "deterministic simulation: seeded task orders of initialisation and shutdown on virtual time"),
 "C14": ("E2 netsim + direct-drive", "exploration", "6 C14",
   "Simulation clause: a live network (marked UDP, a TCP socket stream, ARP, DNS and DHCP exchanges) while the frame hook adds damaged copies of frames in flight and an attacker machine injects raw frames; every candidate is classified with the real decoders and only frames that fail at IPv4/UDP/TCP/ARP/DNS/DHCP level are used; oracle: the run ends as scripted (no panic-exit), applications see only intact legitimate payloads, the TCP stream and the DNS/DHCP exchanges are unaffected. Direct-drive clause: every decoder and the NDL parser on mutated inputs must return Ok/Err without unwinding.",
   "Checksums are compiled out in this build, so only structural damage is detectable; damage that still decodes is ordinary traffic and not asserted on. The decoder/parser clause has no schedule in it and is reported as direct-drive.",
   "deterministic simulation: fault injection of undecodable frames into a live simulated network; direct-drive decoder inputs reported separately"),
 "C15": ("E2 netsim + direct-drive", "exploration", "6 C15",
   "Simulation clause: real DhcpServer/DhcpClient with a pool sized to the holders, up to 12 simultaneous real clients and harness clients that release and rejoin, under frame delays, bounded duplication and task-order perturbation; a wire monitor follows Ack/Release frames in event order. Direct-drive clause: IpGenerator histories (block/fetch/return, all constructors, pools touching 0.0.0.0 and 255.255.255.255) against an interval-set model.",
   "No loss (the protocol has no retransmission); the generator clause has no schedule in it and is reported as direct-drive.",
   "deterministic simulation: seeded message orderings and duplication of DHCP exchanges; direct-drive generator histories reported separately"),
 "C16": ("E2 netsim", "exploration", "6 C16",
   "Generated topologies of 1..4 ArpRouter machines joining subnets in lines, stars and rings with correct, missing, looping, host-specific and default routes; the expected (network, TTL) sequence of every datagram comes from the harness's own longest-prefix match and is compared with the frames seen on every network; delivery to the destination host only; loops end by TTL and the networks fall silent.",
   "No loss/duplication faults (the statement is about forwarding); frame delays and task orders are seeded; a quarter of the runs hold the frames of some taps back for 2.1-6.1 s (longer than an ARP resolution waits), tolerate drops during that time and repeat every datagram 40 s later under the strict model; subnets are /22../26 with host addresses at the corners.",
   "deterministic simulation: seeded topologies, frame delays and task orders with reference forwarding model"),
 "C18": ("E2 netsim (compute_checksum build)", "exploration", "6 C18",
   "Second build of the harness with elvis-core/compute_checksum: every packet emitted by an Elvis machine is verified by an independent RFC 1071 implementation; a foreign stack (etherparse) sends datagrams and runs a TCP connection against the Elvis listener, forcing checksums of 0x0000 with balance bytes; the frame hook replaces frames by versions with one or two detectable bit flips, which must never be delivered.",
   "Every frame the fault hook alters is also put through the real IPv4/UDP/TCP decoders, which must reject it (including a checksum whose set bits were cleared); the Elvis-to-Elvis connection carries data in both directions so that retransmissions change their acknowledgment numbers.",
   "deterministic simulation: fault injection (bit flips) and foreign-stack interop in a second build configuration"),
 "C19": ("E2 netsim + direct-drive", "exploration", "6 C19",
   "Simulation clause: generated runnable descriptions executed by generate_and_run_sim on virtual time under seeded frame delays and task orders; the run must end Exited and every described message must have been on the wire to the described receiver. Direct-drive clause: parse(render(tree)) == tree for tab / 4-space / CRLF renderings, twice in a row, and 8 kinds of structural mutation must be rejected.",
   "ping_pong is covered by the parse clause only (forward, subnet pools and per-machine ARP modes are in the run clause); values contain neither a bare quote/backslash nor ']'. The parse clause has no schedule in it and is reported as direct-drive.",
   "deterministic simulation of generated descriptions; direct-drive parser round trip reported separately"),
 "C20": ("E2 netsim", "exploration", "6 C20",
   "Real DnsServer/DnsClient over datagram sockets: generated record sets (names differing only in case, names that look like address literals, placeholder-like addresses), 1..10 clients whose scripts are rounds of concurrent lookups (repeats exercise the cache; a stampede mode opens with 20+ simultaneous lookups), some lookups through Socket::connect_by_name, frame delays up to 300 ms and task-order perturbation of the responder tasks; returned address = registered address, responses echo id and name of the query of that socket, cached lookups put no frame on the network.",
   "Names fit the server's fixed 80-byte read; no loss (the client has no retry); num_connections is set to the exact number of network lookups.",
   "deterministic simulation: seeded frame delays and task orders with wire monitor"),
}

NOT_APPLICABLE = {
 "C07": "Message/Chunk are single-threaded immutable value types: a pure function of the operation sequence, nothing for a scheduler, clock or fault injector to decide (DESIGN.md section 6).",
 "C08": "Header encode/decode are pure functions of field values/bytes; the quantifier is over inputs only (DESIGN.md section 6).",
 "C09": "IpTable/Ipv4Net/Ipv4Mask are pure sequential data-structure code with no concurrency, time or faults (DESIGN.md section 6).",
 "C10": "fragmentation::fragment is a pure function of (header, payload, MTU); an MTU chain is function composition (DESIGN.md section 6).",
}

PENDING = {}

def main():
    import os
    commits = subprocess.run(["git", "-C", "/repo", "log", "--format=%h %s", "b3caa3ac..HEAD"],
                             capture_output=True, text=True).stdout.strip().split("\n")
    hooks = [c.split()[0] for c in commits if c.split(" ", 1)[1].startswith("verif:")]
    checks = []
    for pid, (engine, cat, ref, text, note, tech) in sorted(CHECKS.items()):
        checks.append({
            "property_id": pid,
            "quick_cmd": f"bin/check {pid} --tier quick",
            "thorough_cmd": f"bin/check {pid} --tier thorough",
            "evidence_file": f"/verif/evidence/{pid}.json",
            "replay_cmd_template": f"bin/check {pid} --replay {{path}}",
            "engine": engine,
            "level_claimed": {"category": cat, "text": text, "design_ref": f"DESIGN.md section {ref}"},
            "level_note": note,
            "technique": tech,
        })
    na = [{"property_id": k, "reason": v} for k, v in sorted(NOT_APPLICABLE.items())]
    for k, v in sorted(PENDING.items()):
        na.append({"property_id": k, "reason": v})
    m = {
        "version": 1,
        "setup_cmd": "cd /verif/harness && cp -n /repo/sim/Cargo.lock Cargo.lock 2>/dev/null; CARGO_NET_OFFLINE=true cargo build --release --offline && CARGO_NET_OFFLINE=true cargo build --release --offline --features cksum --target-dir target-cksum",
        "hooks": {
            "guard": "cargo feature `verif` on elvis-core (and `verif = [\"elvis-core/verif\"]` on elvis), off by default",
            "enable": "the harness crate /verif/harness path-depends on /repo/sim/elvis-core and /repo/sim/elvis with features = [\"verif\"]; every check runs `cargo build --release --offline` there first, so it rebuilds from /repo's working tree",
            "baseline_off_cmd": "cd /repo/sim && cargo nextest run --workspace --no-fail-fast --test-threads 8 --offline || cargo test --workspace --no-fail-fast --offline",
            "source_commits": hooks,
            "add_only": True,
        },
        "engines": [
            {"name": "E1 tcbsim", "path": "/verif/harness/src/e1.rs", "serves_properties": ["C01", "C03", "C12", "C17"],
             "kind_free_text": "discrete-event simulator over two real Tcb objects: seeded scheduler picks among writes, reads, clock ticks, deliver-any/drop/duplicate, closes, old SYNs, forged segments"},
            {"name": "E2 netsim", "path": "/verif/harness/src/sim.rs", "serves_properties": ["C01", "C02", "C03", "C04", "C05", "C06", "C13", "C14", "C15", "C16", "C17", "C18", "C19", "C20"],
             "kind_free_text": "the whole real Elvis stack on one thread: tokio current-thread runtime with paused (virtual) clock, seeded task scheduler (poll deferral through the verif spawn shim), seeded per-frame network verdicts (drop/duplicate/delay/corrupt) through the verif frame hook, seeded randomness; worker processes because a panic exits the process"},
            {"name": "E3 fragsim", "path": "/verif/harness/src/e3.rs", "serves_properties": ["C11"],
             "kind_free_text": "discrete-event simulator over the real IPv4 Reassembly: seeded arrival schedules of real fragments with loss/duplication/overlap and a virtual reassembly-timer clock"},
        ],
        "checks": checks,
        "not_applicable": na,
        "notes": "Technique family: deterministic simulation with fault injection. One integer (VERIF_SEED, default 20260923) decides every run; violations are minimised and written as replay files under /verif/replays; known findings and fixed defects are listed in /verif/known_findings.txt; /verif/regressions holds minimised explicit-case histories that every check replays before its search; /verif/seeded holds 64+ confirmed property-breaking changes with the check that catches each. Quick tier: at most 30-60 s per scenario; thorough tier: 1200 s per engine scenario, 600 s per direct-drive scenario. Exit codes: 0 held, 1 violation, 2 harness/build error.",
    }
    json.dump(m, open("/verif/MANIFEST.json", "w"), indent=1)
    print("checks:", len(checks), "not_applicable:", len(na))

if __name__ == "__main__":
    main()
