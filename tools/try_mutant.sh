#!/bin/bash
# tools/try_mutant.sh <PROPERTY-ID> <patch.diff> [extra check args...]
# Applies a seeded change to /repo, runs the registered quick check of the property,
# prints its verdict lines, and always restores /repo afterwards.
set -u
ID="$1"; PATCH="$(readlink -f "$2")"; shift 2
cd /repo || exit 2
if ! git diff --quiet; then echo "/repo has uncommitted changes, refusing" >&2; exit 2; fi
git apply "$PATCH" || { echo "patch does not apply" >&2; exit 2; }
cd /verif
# the evidence file must describe the unchanged tree: keep it aside while the changed tree is checked
EV=/verif/evidence/$ID.json; SAVE=$(mktemp)
[ -f "$EV" ] && cp "$EV" "$SAVE"
trap 'git -C /repo checkout -- . ; [ -s "$SAVE" ] && cp "$SAVE" "$EV"; rm -f "$SAVE"' EXIT
START=$(date +%s)
OUT=$(bin/check "$ID" --tier quick "$@" 2>&1); CODE=$?
END=$(date +%s)
echo "$OUT" | grep -E "^(violation|VIOLATION|KNOWN-FINDING|property=|HARNESS|BUILD)" | cut -c1-400
echo "exit=$CODE seconds=$((END-START))"
exit $CODE
