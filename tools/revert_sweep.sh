#!/bin/bash
# Sensitivity: for every "fixed:" entry of known_findings.txt, take the repair out of /repo's
# working tree again (reverse-apply the fix commit's diff), run the owning quick check, and
# restore /repo. The check is expected to exit 1. Results: /verif/seeded/revert_sweep.tsv
cd /verif
out=seeded/revert_sweep.tsv
[ -n "$RESUME" ] && cp $out $out.tmp || : > $out.tmp
grep '^fixed:' known_findings.txt | while read -r _ prop commit rest; do
  id=${prop#property=}
  [ -n "$ONLY" ] && [ "$ONLY" != "$commit" ] && continue
  [ -n "$RESUME" ] && grep -q "$commit" $out && continue
  git -C /repo diff --quiet || { echo "repo dirty" >&2; exit 2; }
  # a hand-made equivalent (seeded/reverts/<commit>.diff) where later commits touched the same lines
  if [ -f seeded/reverts/$commit.diff ]; then
    git -C /repo apply /verif/seeded/reverts/$commit.diff || { echo "hand-made revert of $commit does not apply" >&2; exit 2; }
  elif ! git -C /repo show $commit -- sim | git -C /repo apply -R --3way 2>/dev/null && ! git -C /repo show $commit -- sim | git -C /repo apply -R 2>/dev/null; then
    git -C /repo reset -q; git -C /repo checkout -q -- .
    printf "%s\t%s\tSKIP (does not reverse-apply: later commits changed the same lines)\t\n" $id $commit >> $out.tmp
    continue
  fi
  git -C /repo reset -q
  t0=$(date +%s)
  o=$(bin/check $id --tier quick 2>&1); rc=$?
  cls=$(echo "$o" | grep -o 'class=[^ ]*' | head -3 | tr '\n' ' ')
  git -C /repo checkout -q -- .
  printf "%s\t%s\texit=%s %ss\t%s\n" $id $commit $rc $(( $(date +%s) - t0 )) "$cls" >> $out.tmp
done
mv $out.tmp $out
git -C /repo status --short | head -3
cat $out
