#!/usr/bin/env python3
"""Regenerates /verif/seeded/README.md from the meta.json files."""
import json, glob, os
rows = []
for p in sorted(glob.glob("/verif/seeded/*/meta.json")):
    m = json.load(open(p))
    rows.append(m)
out = ["# Seeded property-breaking changes", "",
"Each directory holds one change produced by a fresh sub-agent that saw only the text of one",
"property and a scratch worktree of the repository (nothing from /verif): `patch.diff` (the change),",
"the demonstration test, the agent's `README.md`, and `meta.json` (what it needs in order to",
"manifest, what was run to confirm it, which check catches it). None of these changes is committed",
"in /repo. To run a check against one: `tools/try_mutant.sh <ID> seeded/<id>/patch.diff`",
"(applies it to /repo, runs `bin/check <ID> --tier quick`, and always restores /repo).", "",
"| change | needs, in order to manifest | confirmed (demo fails with / passes without; suite with change) | caught by | violation class | first try? |",
"|---|---|---|---|---|---|"]
missed = 0
not_caught = 0
for m in rows:
    det = m.get("detection", "")
    first = "NOT CAUGHT" if det.startswith("NOT CAUGHT") else ("yes" if not det.startswith("MISSED") else "no - check strengthened")
    if first == "NOT CAUGHT":
        not_caught += 1
    elif first != "yes":
        missed += 1
    conf = f"{'yes' if m.get('confirmed') else 'NO'}; suite: {m.get('suite_with_change', 'not run')}"
    out.append(f"| {m.get('id')} | {m.get('needs_to_manifest','')} | {conf} | {m.get('detected_by_check','')} | `{m.get('violation_class','')}` | {first} |")
out += ["", f"{len(rows)} changes, {len(rows) - missed - not_caught} caught by the check as it stood, {missed} only after the check was strengthened (what was added is in each `meta.json` under `detection` and in DESIGN.md 9.5), {not_caught} not caught (reason in the last column's entry below).", ""]
out += ["## What the misses taught", ""]
for m in rows:
    if m.get("detection", "").startswith("MISSED") or m.get("detection", "").startswith("NOT CAUGHT"):
        out.append(f"* **{m['id']}** - {m['detection']}")
open("/verif/seeded/README.md", "w").write("\n".join(out) + "\n")
print(len(rows), "rows,", missed, "needed strengthening")
