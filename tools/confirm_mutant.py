#!/usr/bin/env python3
"""Confirms a seeded change in its scratch worktree:
   (1) the existing suite is green with the change applied,
   (2) the demonstration fails with the change and passes without it.
Usage: confirm_mutant.py <ID> <k> [--skip-suite]
Writes /verif/seeded/<ID>-<k>/meta.json (status, what was run).
"""
import json, os, re, subprocess, sys, glob, shutil, time

ID, K = sys.argv[1], sys.argv[2]
SKIP_SUITE = "--skip-suite" in sys.argv
WT = os.environ.get("WT", f"/tmp/wt-{ID}")
D = f"/verif/seeded/{ID}-{K}"
SIM = f"{WT}/sim"

def sh(cmd, cwd=WT, timeout=3600):
    p = subprocess.run(cmd, shell=True, cwd=cwd, capture_output=True, text=True, timeout=timeout)
    return p.returncode, p.stdout + p.stderr

def clean():
    sh("git checkout -- . && git clean -fdq sim/elvis-core/tests sim/elvis/tests sim/elvis-core/src sim/elvis/src 2>/dev/null; true")

readme = open(f"{D}/README.md").read() if os.path.exists(f"{D}/README.md") else ""
demos = [f for f in glob.glob(f"{D}/*.rs")]
assert demos, "no demonstration file"
demo = demos[0]
name = os.path.basename(demo)[:-3]
reg = [f for f in glob.glob(f"{D}/*.diff") if not f.endswith("patch.diff")]

# where does the demonstration go?
m = re.search(r"[`\s](?:/tmp/wt-C\d+/)?(sim/\S*" + re.escape(name) + r"\.rs)", readme)
if os.path.exists(f"{D}/placement.txt"):
    dest = open(f"{D}/placement.txt").read().strip()
elif m:
    dest = m.group(1).rstrip("`")
elif reg:
    dest = f"sim/elvis-core/src/protocols/tcp/tcb/{name}.rs"
else:
    dest = f"sim/elvis-core/tests/{name}.rs"
crate = "elvis" if dest.startswith("sim/elvis/") else "elvis-core"
unit = "/src/" in dest
flags = open(f"{D}/demo_flags.txt").read().strip() + " " if os.path.exists(f"{D}/demo_flags.txt") else ""
run_demo = (f"cargo test --offline -p {crate} {flags}--lib {name}" if unit else f"cargo test --offline -p {crate} {flags}--test {name}")

def place():
    os.makedirs(os.path.dirname(f"{WT}/{dest}"), exist_ok=True)
    shutil.copy(demo, f"{WT}/{dest}")
    for r in reg:
        c, o = sh(f"git apply {r}")
        assert c == 0, f"cannot register demo: {o}"

def demo_result():
    c, o = sh(run_demo, cwd=SIM)
    ran = re.findall(r"test result: (\w+)\. (\d+) passed; (\d+) failed", o)
    total_pass = sum(int(x[1]) for x in ran)
    total_fail = sum(int(x[2]) for x in ran)
    if c != 0 and "test failed, to rerun" in o:
        return "fail", f"{total_pass} passed, test binary exited abnormally (panic hook exits the process)"
    if c != 0 and total_fail == 0 and "error" in o and "test result" not in o:
        return "build-error", o[-600:]
    return ("pass" if c == 0 and total_pass > 0 else "fail"), f"{total_pass} passed {total_fail} failed"

FLAKY = ("server_user", "socket_basic", "tcp_with_unreliable", "throughput", "latency", "yahoo", "video_streaming", "server_experiment", "tcp_stream_speed", "telephone", "generator_", "dhcp_basic", "dns_basic", "localhost", "ping_pong", "arp_", "basic", "subnet", "udp_broadcast", "tcp_stream", "tcp_with_reliable")

def suite():
    c, o = sh("cargo nextest run --workspace --no-fail-fast --test-threads 8 --offline 2>&1 | tail -120", cwd=SIM)
    m = re.search(r"(\d+) tests run: (\d+) passed", o)
    if not m:
        return False, "no summary: " + o[-400:]
    run, passed = int(m.group(1)), int(m.group(2))
    failed_names = re.findall(r"^\s*(?:FAIL|SIGABRT|SIGSEGV|SIGKILL|TIMEOUT|ABORT|LEAK-FAIL)\s+\[[^\]]*\]\s+(?:\(\s*\d+/\d+\)\s+)?(\S+)\s+(\S+)", o, re.M)
    failed_names = sorted(set(f"{a} {b}" for a, b in failed_names))
    # wall-clock sensitive tests fail under load: re-run just those, alone
    still = []
    for t in failed_names:
        ok = False
        for _ in range(4):
            c2, o2 = sh(f"cargo nextest run --workspace --offline -E 'test(={t.split()[-1]})' 2>&1 | tail -5", cwd=SIM)
            if re.search(r"1 passed", o2):
                ok = True
                break
        if not ok:
            still.append(t)
    accounted = passed + len(failed_names) >= run and run >= 156
    return (len(still) == 0 and accounted), f"{run} run, {passed} passed at first; failed at first: {failed_names}; re-run alone: still failing {still}"

meta = {"property": ID, "change": int(K), "worktree": WT, "demonstration": dest, "demo_command": f"cd sim && {run_demo}", "confirmed_at": time.strftime("%Y-%m-%dT%H:%M:%SZ", time.gmtime())}
clean()
# unchanged code: demo passes
place()
r0, d0 = demo_result()
meta["demo_on_unchanged_code"] = f"{r0} ({d0})"
clean()
# with the change: suite green (without the demo), demo fails
c, o = sh(f"git apply {D}/patch.diff")
assert c == 0, f"patch does not apply: {o}"
if SKIP_SUITE:
    meta["suite_with_change"] = "not run"
    suite_ok = None
else:
    suite_ok, sd = suite()
    meta["suite_with_change"] = ("green" if suite_ok else "NOT green") + f" ({sd})"
place()
r1, d1 = demo_result()
meta["demo_with_change"] = f"{r1} ({d1})"
clean()
meta["confirmed"] = bool(r0 == "pass" and r1 == "fail" and (suite_ok in (True, None)))
old = {}
if os.path.exists(f"{D}/meta.json"):
    old = json.load(open(f"{D}/meta.json"))
old.update(meta)
json.dump(old, open(f"{D}/meta.json", "w"), indent=1)
print(json.dumps(meta, indent=1))
