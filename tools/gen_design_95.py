#!/usr/bin/env python3
"""Rewrites section 9.5 of DESIGN.md (sensitivity: seeded changes and the revert sweep) from
seeded/*/meta.json and seeded/revert_sweep.tsv. Everything before '### 9.5' is kept."""
import json, glob
p = '/verif/DESIGN.md'
s = open(p).read()
i = s.index('### 9.5 Sensitivity')
j = s.find('\n### 9.6', i)
head, tail = s[:i], (s[j:] if j >= 0 else '')
rows = [json.load(open(f)) for f in sorted(glob.glob('/verif/seeded/*/meta.json'))]
def first(m): return not m.get('detection', '').startswith('MISSED') and not m.get('detection', '').startswith('NOT CAUGHT')
def notcaught(m): return m.get('detection', '').startswith('NOT CAUGHT')
r1 = [m for m in rows if m.get('round', 1) == 1]
r2 = [m for m in rows if m.get('round', 1) == 2]
r3 = [m for m in rows if m.get('round', 1) == 3]
r4 = [m for m in rows if m.get('round', 1) == 4]
r5 = [m for m in rows if m.get('round', 1) == 5]
tbl = ["| change | round | what it needs | caught by check | class | at first try |", "|---|---|---|---|---|---|"]
for m in rows:
    tbl.append(f"| {m['id']} | {m.get('round', 1)} | {m.get('needs_to_manifest', '')} | {m.get('detected_by_check', '')} | `{m.get('violation_class', '')}` | {'NOT CAUGHT' if notcaught(m) else ('yes' if first(m) else 'no')} |")
strength = [f"* {m['id']}: {m['detection']}" for m in rows if not first(m)]
sweep = [l.rstrip('\n').split('\t') for l in open('/verif/seeded/revert_sweep.tsv')]
first_pass = [l for l in sweep if 're-run' not in l[2]]
caught = sum(1 for l in first_pass if 'exit=1' in l[2])
sweep_tbl = ["| property | fix commit | result of the owning quick check with the repair taken out | classes |", "|---|---|---|---|"]
for l in sweep:
    sweep_tbl.append(f"| {l[0]} | {l[1]} | {l[2]} | `{(l[3] if len(l) > 3 else '').strip()[:110]}` |")
sec = f"""### 9.5 Sensitivity: seeded property-breaking changes, and every repair taken out again

**Seeded changes.** Fresh sub-agents, given only the text of one property and a
scratch worktree (nothing from /verif), produced changes that break the
property while the 156 baseline tests stay green, each with a demonstration
test. Each change kept under `/verif/seeded/<id>/` was confirmed by me in a
scratch worktree (`tools/confirm_mutant.py`: demonstration fails with / passes
without the change; the suite is green with it, wall-clock-sensitive tests
re-run alone when the machine was loaded) and then run against the registered
quick check (`tools/try_mutant.sh`: `git apply`, `bin/check <ID> --tier quick`,
`git checkout -- .`). `/verif/seeded/README.md` is generated from the
`meta.json` files (`tools/gen_seeded_readme.py`).

Round 1 asked for two changes per claimed property ({len(r1)} in all): {sum(first(m) for m in r1)} were
caught by the check as it stood, {sum(not first(m) for m in r1)} only after the check had been
strengthened. Round 2 asked different agents for *less obvious* changes
(secondary clauses, error/expiry/cancellation paths, per-instance vs shared
state, second uses of an object, special values): {len(r2)} so far, {sum(first(m) for m in r2)} caught at
once, {sum(not first(m) for m in r2)} after strengthening. Round 3 asked a third set of agents for yet other directions (helper code, extreme configuration values, N-th use and declaration order, cooperating edits, ten or more parties) on eight properties: {len(r3)} changes, {sum(first(m) for m in r3)} caught at once, {sum((not first(m)) and (not notcaught(m)) for m in r3)} after strengthening (that one exposed a genuine defect of the unchanged code), {sum(notcaught(m) for m in r3)} not caught: C02-5, starvation by a busy-polling task, which virtual time cannot show (section 7). Round 4 (the eight properties round 3 had left out: C01, C03, C04, C05, C11, C12, C13, C14; agents asked for cooperating edits, leftover state, expiry and error paths, N-th use) gave {len(r4)} changes, several of them rediscoveries of earlier ones by independent agents: {sum(first(m) for m in r4)} caught at once, {sum((not first(m)) and (not notcaught(m)) for m in r4)} after strengthening (C13-5). Round 5 aimed at the machinery added in this session: agents for C01 and C03 were told to change only the TCP glue (`tcp_session.rs`, `tcp.rs`: what E1 replaces by a stub and only the new *.stack scenarios run), two more agents took C16 and C20 once more: {len(r5)} changes, {sum(first(m) for m in r5)} caught at once (the four glue changes by C01.stack / C03.stack alone, as it must be - engine E1 never executes those files). Every strengthening was
first run on the unchanged tree (it must stay silent there); two of them found
further genuine defects in the unchanged code (the reassembly `div_ceil`
overflow and Forward's pre-barrier session, section 9.3).

{chr(10).join(tbl)}

What each miss added to the machinery:

{chr(10).join(strength)}

The pattern in the misses: (1) a generator that made one choice per run where
the code has per-object state (ARP mode per machine, sequential lookups per
client, built-ins limited to two flavours, every resolver running to
completion); (2) fault magnitudes below the protocol's own timers (frame delays
of 100 ms against an ARP patience of 2 s); (3) one-directional flows where the
code keeps per-direction state (acknowledgment numbers in retransmissions);
(4) values without corners (names that look like addresses, the address
0.0.0.0, a host ending in .255 inside a /23, an empty argument value); and
(5) oracles that looked at application-visible effects only (a corrupted
packet that is *accepted* but changes nothing visible). The corrections are
swarm-style: the choice moved inside the loop, corner values entered the
generators with a fixed share, faults were scaled to the timers of the code
under test, and the decoders are consulted directly on every frame the fault
hook alters.

**Every repair taken out again** (`tools/revert_sweep.sh`, results in
`seeded/revert_sweep.tsv`): for each `fixed:` line of `known_findings.txt` the
fix commit is reverse-applied to the working tree (a hand-made equivalent under
`seeded/reverts/` where later commits touched the same lines), the owning quick
check is run and /repo restored. {caught} of the {len(first_pass)} fix commits were reported at once. The one
that was not (C02, the bounded receive queue of a socket, 8cfd1efe) had become
unreachable for the generator after a later repair made the TCP session hand
over data in batches; the scenario got a 'trickle to a late reader' mode
(hundreds of small spaced writes before the first read), with which the revert
is reported (`stream|incomplete`, `panic|socket.rs`). The minimised histories
of the explicit-case scenarios from this sweep are the core of the regression
corpus (9.2).

{chr(10).join(sweep_tbl)}
"""
open(p, 'w').write(head + sec + tail)
print("9.5 rewritten:", len(rows), "changes,", len(sweep), "reverts")
