//! C01.stack: the byte-stream property of C01 decided once more with the *real*
//! session glue (`tcp_session.rs`, `Tcp::demux`, `Tcp::open` / `Tcp::listen`,
//! Ipv4, Pci, Network) instead of the E1 stub: harness applications sit directly
//! on `Tcp`, the frame hook loses, duplicates and delays TCP frames without any
//! bound while the fault phase lasts, then the network becomes fair and the
//! bounded-liveness clause is checked in simulated time: everything delivered
//! exactly once, then silence on the wire.

use crate::common::*;
use crate::e2::*;
use crate::sim::{self, E2Case, FaultPlan};
use elvis_core::protocol::{DemuxError, NotifyType, StartError};
use elvis_core::protocols::ipv4::{Ipv4, Ipv4Address, Recipient};
use elvis_core::protocols::{Arp, Endpoint, Endpoints, Pci, Tcp};
use elvis_core::{Control, ExitStatus, IpTable, Machine, Message, Protocol, Session, Shutdown};
use std::any::TypeId;
use std::collections::BTreeMap;
use std::sync::{Arc, Mutex};
use std::time::Duration;
use tokio::sync::Barrier;

/// `open_focus`: the C03.stack variant - many connections, hardly any data, a third of the opens simultaneous.
pub struct TcpStack {
    pub open_focus: bool,
    /// the C17.stack variant: a third machine forges segments from the peer's address that lie far
    /// outside the receive window of established connections
    pub byzantine: bool,
}

const CLIENT_PORT: u16 = 5000;

/// Byte at offset `off` of the stream machine `m` writes on connection `k`.
fn sbyte(m: usize, k: usize, off: u64) -> u8 {
    let salt = (m as u64 * 8 + k as u64 + 1) << 44;
    ((off ^ salt).wrapping_mul(0x9E37_79B9_7F4A_7C15) >> 56) as u8
}

fn stream(m: usize, k: usize, from: u64, n: usize) -> Vec<u8> {
    (0..n as u64).map(|i| sbyte(m, k, from + i)).collect()
}

#[derive(Default)]
struct Shared {
    /// bytes handed to `Session::send` so far, per (machine, connection)
    sent: BTreeMap<(usize, usize), u64>,
    /// bytes handed to the application so far, per (machine, connection)
    rcvd: BTreeMap<(usize, usize), u64>,
    last_rx_ms: u64,
    sessions: BTreeMap<(usize, usize), Arc<dyn Session>>,
    new_connection: BTreeMap<(usize, usize), u32>,
    violations: Vec<Violation>,
    writers_done: usize,
    errors: Vec<String>,
}

/// Harness application directly above `Tcp`.
struct TApp {
    machine_id: usize,
    shared: Arc<Mutex<Shared>>,
    pre: Mutex<Option<Box<dyn FnOnce(&Ctx) + Send>>>,
    script: Mutex<Option<Box<dyn FnOnce(Ctx) -> BoxFut + Send>>>,
}

fn conn_of(machine: usize, e: &Endpoints) -> usize {
    // the client's port names the connection on both machines
    let p = if machine == 0 { e.local.port } else { e.remote.port };
    p.wrapping_sub(CLIENT_PORT) as usize
}

#[async_trait::async_trait]
impl Protocol for TApp {
    async fn start(&self, shutdown: Shutdown, initialized: Arc<Barrier>, machine: Arc<Machine>) -> Result<(), StartError> {
        let ctx = Ctx {
            machine,
            shutdown,
            machine_id: self.machine_id,
        };
        if let Some(pre) = self.pre.lock().unwrap().take() {
            pre(&ctx);
        }
        initialized.wait().await;
        if let Some(script) = self.script.lock().unwrap().take() {
            elvis_core::verif::tokio::spawn(script(ctx));
        }
        Ok(())
    }

    fn demux(&self, message: Message, caller: Arc<dyn Session>, control: Control, _machine: Arc<Machine>) -> Result<(), DemuxError> {
        let _ = sim::next_event();
        let now = sim::now_ms();
        let Some(e) = control.get::<Endpoints>().copied() else {
            self.shared.lock().unwrap().violations.push(Violation::new("stack", "no-endpoints-in-control", "TCP handed data up without endpoints".into()));
            return Ok(());
        };
        let m = self.machine_id;
        let k = conn_of(m, &e);
        let bytes = message.to_vec();
        sim::note_trace(3, (m as u64) << 8 | k as u64, bytes.len() as u64);
        let mut s = self.shared.lock().unwrap();
        s.sessions.entry((m, k)).or_insert(caller);
        s.last_rx_ms = now;
        let have = s.rcvd.get(&(m, k)).copied().unwrap_or(0);
        let submitted = s.sent.get(&(1 - m, k)).copied().unwrap_or(0);
        if k > 7 {
            s.violations.push(Violation::new("prefix", "unknown-connection", format!("machine {m}: data for endpoints {e:?} which no script opened")));
            return Ok(());
        }
        if have + bytes.len() as u64 > submitted {
            s.violations.push(Violation::new(
                "prefix",
                "more-than-sent",
                format!("machine {m} connection {k}: {} bytes handed to the application, the peer had submitted {submitted}", have + bytes.len() as u64),
            ));
        }
        if let Some(i) = (0..bytes.len()).find(|i| bytes[*i] != sbyte(1 - m, k, have + *i as u64)) {
            // where do these bytes come from? earlier in the same stream = duplicate, later = gap
            let probe: Vec<u8> = bytes[i..(i + 10).min(bytes.len())].to_vec();
            let at = have + i as u64;
            let lo = at.saturating_sub(200_000);
            let earlier = probe.len() >= 6 && (lo..at).any(|o| (0..probe.len()).all(|j| sbyte(1 - m, k, o + j as u64) == probe[j]));
            let later = probe.len() >= 6 && (at + 1..at + 200_000).any(|o| (0..probe.len()).all(|j| sbyte(1 - m, k, o + j as u64) == probe[j]));
            let kind = if earlier {
                "bytes-repeated"
            } else if later {
                "bytes-missing"
            } else {
                "wrong-byte"
            };
            s.violations.push(Violation::new(
                "prefix",
                kind,
                format!("machine {m} connection {k}: byte at stream offset {at} is {:#04x}, the peer submitted {:#04x} there ({kind})", bytes[i], sbyte(1 - m, k, at)),
            ));
        }
        *s.rcvd.entry((m, k)).or_insert(0) += bytes.len() as u64;
        Ok(())
    }

    fn notify(&self, notification: NotifyType, caller: Arc<dyn Session>, control: Control) {
        if notification != NotifyType::NewConnection {
            return;
        }
        let Some(e) = control.get::<Endpoints>().copied() else { return };
        let m = self.machine_id;
        let k = conn_of(m, &e);
        let mut s = self.shared.lock().unwrap();
        s.sessions.entry((m, k)).or_insert(caller);
        *s.new_connection.entry((m, k)).or_insert(0) += 1;
    }
}

#[derive(Clone, Copy, Debug, Default)]
struct Verdicts {
    faults_off_ms: u64,
    writers_done_ms: u64,
    deadline_ms: u64,
    allowed_ms: u64,
    total_bytes: u64,
    n_conns: usize,
}

impl E2Run for TcpStack {
    fn id(&self) -> &'static str {
        if self.byzantine {
            "C17.stack"
        } else if self.open_focus {
            "C03.stack"
        } else {
            "C01.stack"
        }
    }

    fn run(&self, case: &E2Case, _opts: &RunOpts) -> Outcome {
        let shared: Arc<Mutex<Shared>> = Arc::new(Mutex::new(Shared::default()));
        let sh = shared.clone();
        let verdicts: Arc<Mutex<Verdicts>> = Arc::new(Mutex::new(Verdicts::default()));
        let vd = verdicts.clone();
        let at_deadline: Arc<Mutex<BTreeMap<(usize, usize), u64>>> = Arc::new(Mutex::new(BTreeMap::new()));
        let atd = at_deadline.clone();
        let plan_out: Arc<Mutex<BTreeMap<(usize, usize), u64>>> = Arc::new(Mutex::new(BTreeMap::new()));
        let plan_out2 = plan_out.clone();
        let simul_out: Arc<Mutex<Vec<bool>>> = Arc::new(Mutex::new(vec![]));
        let simul_out2 = simul_out.clone();
        let open_focus = self.open_focus;
        let byzantine = self.byzantine;
        let attacker_mac: Arc<Mutex<Option<u64>>> = Arc::new(Mutex::new(None));
        let attacker_mac2 = attacker_mac.clone();
        let (status, state) = sim::run_sim(case, default_cfg(), move || async move {
            draw_scheduler_knobs();
            // ---- network and faults: no bound on consecutive losses while the fault phase lasts
            let max_delay_ms = *[0u64, 40, 250, 1500].get(sim::choose(4) as usize).unwrap();
            let plan = FaultPlan {
                drop: *[0u64, 30, 120, 300, 500].get(sim::choose(5) as usize).unwrap(),
                dup: *[0u64, 0, 60, 250].get(sim::choose(4) as usize).unwrap(),
                delay: if max_delay_ms == 0 { 0 } else { *[100u64, 400, 800].get(sim::choose(3) as usize).unwrap() },
                max_delay_ms,
                max_consecutive_drops: 1_000_000,
                only_protocols: vec![TypeId::of::<Ipv4>()],
                ..Default::default()
            };
            sim::with_state(|s| s.plan = plan);
            let mtu = *[100u16, 120, 256, 576, 1500, 1500, 9000].get(sim::choose(7) as usize).unwrap();
            let jitter = *[0u64, 0, 3, 30].get(sim::choose(4) as usize).unwrap();
            let mut nb = elvis_core::network::NetworkBuilder::new().mtu(mtu as u32 as _);
            if jitter > 0 {
                nb = nb.latency(elvis_core::network::Latency::variable(Duration::from_millis(1), Duration::from_millis(jitter)));
            }
            let net = nb.build();
            sim::network_index(Arc::as_ptr(&net) as usize);
            let with_arp = sim::chance(1, 3);
            // addresses differ from run to run as well (same reason as for the ports below)
            let a0 = [10, sim::choose(4) as u8, sim::choose(256) as u8, 1 + sim::choose(254) as u8];
            let mut a1 = [10, sim::choose(4) as u8, sim::choose(256) as u8, 1 + sim::choose(254) as u8];
            if a1 == a0 {
                a1[1] ^= 1;
            }
            let addr = [Ipv4Address::new(a0), Ipv4Address::new(a1)];

            // ---- connections
            let n_conns = 1 + sim::choose(if open_focus { 6 } else { 3 }) as usize;
            // per connection: opened by both sides at the same instant (simultaneous open) or active against passive
            let simul: Vec<bool> = (0..n_conns).map(|_| sim::chance(1, if open_focus { 3 } else { 8 })).collect();
            for _ in simul.iter().filter(|b| **b) {
                sim::count("probe_simultaneous_open");
            }
            *simul_out2.lock().unwrap() = simul.clone();
            let open_delays: Vec<u64> = (0..n_conns).map(|_| sim::choose(3) * sim::choose(60)).collect();
            let shared_listener = sim::chance(1, 2);
            let wildcard_listener = sim::chance(1, 4);
            let simul_p = simul.clone();
            // the listening ports differ from run to run: which table entries share a lock depends on them
            let base_port = 7000 + sim::choose(256) as u16;
            let server_port = move |k: usize| if simul_p[k] { base_port + 1000 + k as u16 } else if shared_listener { base_port } else { base_port + k as u16 };
            // reach probe: does the exact endpoint of a listener share a shard of the listen table with its wildcard endpoint?
            if wildcard_listener {
                let probe: elvis_core::FxDashMap<Endpoint, ()> = Default::default();
                for k in (0..n_conns).filter(|k| !simul[*k]) {
                    let p = server_port(k);
                    // dashmap 5: shards = (cpus * 4).next_power_of_two(), shard = (hash << 7) >> (64 - log2(shards))
                    let shards = (std::thread::available_parallelism().map_or(1, usize::from) * 4).next_power_of_two();
                    let shard = |e: &Endpoint| (probe.hash_usize(e) << 7) >> (usize::BITS as usize - shards.trailing_zeros() as usize);
                    if shard(&Endpoint::new(addr[1], p)) == shard(&Endpoint::new(Ipv4Address::new([0, 0, 0, 0]), p)) {
                        sim::count("probe_exact_and_wildcard_endpoint_share_a_shard_of_the_listen_table");
                    }
                }
            }
            let size_class = if open_focus { 0 } else { sim::choose(10) };
            let mss = mtu as usize - 40;
            let mut total_bytes = 0u64;
            // per (machine, connection): list of (bytes, gap before the write in ms)
            let mut plans: BTreeMap<(usize, usize), Vec<(usize, u64)>> = BTreeMap::new();
            for k in 0..n_conns {
                for m in 0..2usize {
                    let quiet_side = sim::chance(1, 4);
                    let n_writes = if quiet_side {
                        0
                    } else if open_focus {
                        sim::choose(3) as usize
                    } else {
                        1 + sim::choose(if size_class >= 8 { 3 } else { 12 }) as usize
                    };
                    let mut w = vec![];
                    for _ in 0..n_writes {
                        let n = match size_class {
                            0..=5 => *[1usize, 2, 9, 100, mss - 1, mss, mss + 1, 2 * mss + 3].get(sim::choose(8) as usize).unwrap(),
                            6..=7 => *[1usize, mss, 4000, 20_000].get(sim::choose(4) as usize).unwrap(),
                            8 => *[mss, 65_535, 65_536, 70_000].get(sim::choose(4) as usize).unwrap(),
                            _ => *[30_000usize, 100_000, 200_000].get(sim::choose(3) as usize).unwrap(),
                        };
                        let gap = match sim::choose(4) {
                            0 | 1 => 0,
                            2 => sim::choose(30),
                            _ => 90 + sim::choose(30),
                        };
                        total_bytes += n as u64;
                        w.push((n, gap));
                    }
                    plan_out2.lock().unwrap().insert((m, k), w.iter().map(|(n, _)| *n as u64).sum());
                    plans.insert((m, k), w);
                }
            }
            vd.lock().unwrap().total_bytes = total_bytes;
            vd.lock().unwrap().n_conns = n_conns;
            let n_writers = 2 * n_conns;

            let mk_machine = |m: usize, app: TApp| {
                let table: IpTable<Recipient> = [("0.0.0.0/0", Recipient::new(0, None))].into_iter().collect();
                let mach = Machine::new().with(app).with(Tcp::new()).with(Ipv4::new(table)).with(Pci::new([net.clone()]));
                let _ = m;
                if with_arp {
                    mach.with(Arp::new()).arc()
                } else {
                    mach.arc()
                }
            };

            // a writer: waits for its session, then issues its writes in program order
            async fn write_all(sh: Arc<Mutex<Shared>>, m: usize, k: usize, session: Arc<dyn Session>, machine: Arc<Machine>, writes: Vec<(usize, u64)>) {
                let mut off = 0u64;
                for (n, gap) in writes {
                    if gap > 0 {
                        tokio::time::sleep(Duration::from_millis(gap)).await;
                    }
                    *sh.lock().unwrap().sent.entry((m, k)).or_insert(0) += n as u64;
                    let _ = session.send(Message::new(stream(m, k, off, n)), machine.clone());
                    sim::note_trace(4, (m as u64) << 8 | k as u64, n as u64);
                    off += n as u64;
                }
                sh.lock().unwrap().writers_done += 1;
            }

            // ---- machine 0: active opener of every connection
            let ctl_shutdown: Arc<Mutex<Option<Shutdown>>> = Arc::new(Mutex::new(None));
            let slot = ctl_shutdown.clone();
            let sh0 = sh.clone();
            let open_delays0 = open_delays.clone();
            let server_port0 = server_port.clone();
            let plans0: Vec<(usize, Vec<(usize, u64)>)> = (0..n_conns).map(|k| (k, plans[&(0, k)].clone())).collect();
            let app0 = TApp {
                machine_id: 0,
                shared: sh.clone(),
                pre: Mutex::new(None),
                script: Mutex::new(Some(Box::new(move |ctx: Ctx| {
                    Box::pin(async move {
                        *slot.lock().unwrap() = Some(ctx.shutdown.clone());
                        for (k, writes) in plans0 {
                            let sh = sh0.clone();
                            let ctx = ctx.clone();
                            let server_port0 = server_port0.clone();
                            let open_delay = open_delays0[k];
                            let write_delay = if sim::chance(1, 2) { 0 } else { sim::choose(250) };
                            elvis_core::verif::tokio::spawn(async move {
                                if open_delay > 0 {
                                    tokio::time::sleep(Duration::from_millis(open_delay)).await;
                                }
                                let tcp = ctx.machine.protocol::<Tcp>().unwrap();
                                let e = Endpoints::new(Endpoint::new(addr[0], CLIENT_PORT + k as u16), Endpoint::new(addr[1], server_port0(k)));
                                let session = match tcp.open(TypeId::of::<TApp>(), e, ctx.machine.clone()).await {
                                    Ok(s) => s,
                                    Err(err) => {
                                        sh.lock().unwrap().errors.push(format!("open {k}: {err}"));
                                        sh.lock().unwrap().writers_done += 1;
                                        return;
                                    }
                                };
                                if write_delay == 0 && !writes.is_empty() {
                                    sim::count("probe_write_before_the_handshake_completed");
                                } else {
                                    tokio::time::sleep(Duration::from_millis(write_delay)).await;
                                }
                                write_all(sh, 0, k, session, ctx.machine.clone(), writes).await;
                            });
                        }
                    }) as BoxFut
                }))),
            };

            // ---- machine 1: listener (or second active opener)
            let sh1 = sh.clone();
            let plans1: Vec<(usize, Vec<(usize, u64)>)> = (0..n_conns).map(|k| (k, plans[&(1, k)].clone())).collect();
            let simul1 = simul.clone();
            let server_port_forger = server_port.clone();
            let server_port1 = server_port.clone();
            let pre1: Option<Box<dyn FnOnce(&Ctx) + Send>> = Some(Box::new(move |ctx: &Ctx| {
                let tcp = ctx.machine.protocol::<Tcp>().unwrap();
                let a = if wildcard_listener { Ipv4Address::new([0, 0, 0, 0]) } else { addr[1] };
                let mut ports: Vec<u16> = (0..n_conns).filter(|k| !simul1[*k]).map(&server_port1).collect();
                ports.dedup();
                for p in ports {
                    let _ = tcp.listen(TypeId::of::<TApp>(), Endpoint::new(a, p), ctx.machine.clone());
                }
                // a machine that listens on the wildcard address still owns its address
                if let Some(arp) = ctx.machine.protocol::<Arp>() {
                    arp.listen(addr[1]);
                }
            }));
            let simul2 = simul.clone();
            let open_delays1 = open_delays.clone();
            let app1 = TApp {
                machine_id: 1,
                shared: sh.clone(),
                pre: Mutex::new(pre1),
                script: Mutex::new(Some(Box::new(move |ctx: Ctx| {
                    Box::pin(async move {
                        for (k, writes) in plans1 {
                            let sh = sh1.clone();
                            let ctx = ctx.clone();
                            let open_delay = open_delays1[k];
                            let simultaneous = simul2[k];
                            let server_port = server_port.clone();
                            elvis_core::verif::tokio::spawn(async move {
                                let session = if simultaneous {
                                    if open_delay > 0 {
                                        tokio::time::sleep(Duration::from_millis(open_delay)).await;
                                    }
                                    let tcp = ctx.machine.protocol::<Tcp>().unwrap();
                                    let e = Endpoints::new(Endpoint::new(addr[1], server_port(k)), Endpoint::new(addr[0], CLIENT_PORT + k as u16));
                                    match tcp.open(TypeId::of::<TApp>(), e, ctx.machine.clone()).await {
                                        Ok(s) => Some(s),
                                        Err(err) => {
                                            sh.lock().unwrap().errors.push(format!("open {k} (machine 1): {err}"));
                                            sh.lock().unwrap().writers_done += 1;
                                            return;
                                        }
                                    }
                                } else {
                                    // the passive side learns its session from the NewConnection notification (or the first data)
                                    let mut waited = 0u64;
                                    loop {
                                        if let Some(s) = sh.lock().unwrap().sessions.get(&(1, k)).cloned() {
                                            break Some(s);
                                        }
                                        if waited > 120_000 {
                                            break None;
                                        }
                                        tokio::time::sleep(Duration::from_millis(2)).await;
                                        waited += 2;
                                    }
                                };
                                match session {
                                    Some(session) => write_all(sh, 1, k, session, ctx.machine.clone(), writes).await,
                                    None => {
                                        sh.lock().unwrap().errors.push(format!("machine 1 never got a session for connection {k}"));
                                        sh.lock().unwrap().writers_done += 1;
                                    }
                                }
                            });
                        }
                    }) as BoxFut
                }))),
            };
            let mut machines = vec![mk_machine(0, app0), mk_machine(1, app1)];
            if byzantine {
                // ---- machine 2: forges segments "from" one endpoint of an established connection to the other,
                // with sequence numbers 2^30 above or below what the victim expects (the window is at most 65535)
                let pci = Pci::new([net.clone()]);
                let mac = pci.mac_addresses().next().unwrap();
                *attacker_mac2.lock().unwrap() = Some(mac);
                let sha = sh.clone();
                let sp = server_port_forger;
                let forger = App::<2>::new(2).script(move |ctx: Ctx| async move {
                    let ipv4 = TypeId::of::<Ipv4>();
                    let session = ctx.machine.protocol::<Pci>().unwrap().open(0);
                    loop {
                        tokio::time::sleep(Duration::from_millis(3 + sim::choose(60))).await;
                        if !sim::with_state(|s| s.faults_enabled) {
                            break; // the forger stops when the network becomes fair
                        }
                        let k = sim::choose(n_conns as u64) as usize;
                        let victim = sim::choose(2) as usize;
                        // only connections that both applications have been told are established
                        let established = {
                            let g = sha.lock().unwrap();
                            g.new_connection.contains_key(&(0, k)) && g.new_connection.contains_key(&(1, k))
                        };
                        if !established {
                            continue;
                        }
                        let (cport, sport_k) = (CLIENT_PORT + k as u16, sp(k));
                        let (src_port, dst_port) = if victim == 0 { (sport_k, cport) } else { (cport, sport_k) };
                        // what the victim expects next is close to the highest sequence number its peer has put on the wire
                        let peer_seq = sim::with_state(|s| {
                            s.frames
                                .iter()
                                .rev()
                                .filter(|f| f.sender != mac && f.protocol == ipv4 && f.bytes.len() >= 40 && f.bytes[9] == 6)
                                .find(|f| u16::from_be_bytes([f.bytes[20], f.bytes[21]]) == src_port && u16::from_be_bytes([f.bytes[22], f.bytes[23]]) == dst_port && f.bytes[12..16] == addr[1 - victim].to_bytes())
                                .map(|f| u32::from_be_bytes([f.bytes[24], f.bytes[25], f.bytes[26], f.bytes[27]]))
                        });
                        let Some(peer_seq) = peer_seq else { continue };
                        let far = (1u32 << 30) + sim::choose(1 << 20) as u32;
                        let seq = if sim::chance(1, 2) { peer_seq.wrapping_add(far) } else { peer_seq.wrapping_sub(far) };
                        let flags = sim::choose(64);
                        let window = *[0u16, 1, 100, 65535].get(sim::choose(4) as usize).unwrap();
                        let mut b = etherparse::PacketBuilder::ipv4(addr[1 - victim].to_bytes(), addr[victim].to_bytes(), 30).tcp(src_port, dst_port, seq, window);
                        if flags & 1 != 0 {
                            b = b.fin();
                        }
                        if flags & 2 != 0 {
                            b = b.syn();
                        }
                        if flags & 4 != 0 {
                            b = b.rst();
                        }
                        if flags & 8 != 0 {
                            b = b.psh();
                        }
                        if flags & 16 != 0 {
                            b = b.ack(match sim::choose(3) {
                                0 => sim::choose(1 << 32) as u32,
                                1 => peer_seq,
                                _ => 0,
                            });
                        }
                        if flags & 32 != 0 {
                            b = b.urg(sim::choose(100) as u16);
                        }
                        let payload: Vec<u8> = (0..sim::choose(4) * sim::choose(40)).map(|i| 0xF0 | (i as u8 & 0x0f)).collect();
                        let mut bytes = Vec::new();
                        b.write(&mut bytes, &payload).unwrap();
                        if bytes.len() <= mtu as usize {
                            sim::count(if flags & 4 != 0 { "fault_forged_reset_outside_the_window" } else if flags & 2 != 0 { "fault_forged_syn_outside_the_window" } else { "fault_forged_segment_outside_the_window" });
                            let _ = session.send_pci(Message::new(bytes), None, ipv4);
                        }
                    }
                });
                machines.push(Machine::new().with(pci).with(forger).arc());
            }

            // ---- controller: fault phase, fair phase with a liveness bound, silence window
            let shc = sh.clone();
            let fault_cap_ms = 2_000 + sim::choose(4) * 4_000;
            elvis_core::verif::tokio::spawn(async move {
                let t0 = tokio::time::Instant::now();
                loop {
                    tokio::time::sleep(Duration::from_millis(50)).await;
                    let done = shc.lock().unwrap().writers_done;
                    if done >= n_writers || t0.elapsed().as_millis() as u64 >= fault_cap_ms {
                        break;
                    }
                }
                if sim::chance(1, 2) {
                    tokio::time::sleep(Duration::from_millis(sim::choose(400))).await;
                }
                sim::with_state(|s| s.faults_enabled = false);
                let faults_off = t0.elapsed().as_millis() as u64;
                // writers that were still waiting (connection not yet established under heavy loss) finish on the fair network
                let mut waited = 0u64;
                while shc.lock().unwrap().writers_done < n_writers && waited < 100_000 {
                    tokio::time::sleep(Duration::from_millis(50)).await;
                    waited += 50;
                }
                let writers_done = t0.elapsed().as_millis() as u64;
                // bounded liveness: frames still held back by the delay fault arrive within max_delay_ms;
                // after that a bounded number of retransmission timeouts (100 ms each) per window of data
                let windows = total_bytes.div_ceil(65_535).max(1);
                let allowed = max_delay_ms + 2 * jitter + (12 + 4 * windows) * 100;
                {
                    let mut v = vd.lock().unwrap();
                    v.faults_off_ms = faults_off;
                    v.writers_done_ms = writers_done;
                    v.allowed_ms = allowed;
                    v.deadline_ms = writers_done + allowed;
                }
                tokio::time::sleep(Duration::from_millis(allowed)).await;
                *atd.lock().unwrap() = shc.lock().unwrap().rcvd.clone();
                // silence window
                tokio::time::sleep(Duration::from_millis(3_000)).await;
                sim::with_state(|s| s.notes.push("controller-finished".into()));
                if let Some(sd) = ctl_shutdown.lock().unwrap().take() {
                    sd.shut_down();
                }
            });
            let horizon = fault_cap_ms + 100_000 + 400 + 1500 + 2 * 30 + (12 + 4 * total_bytes.div_ceil(65_535).max(1)) * 100 + 3_000 + 5_000;
            run_machines(machines, horizon).await
        });
        let mut out = Outcome::default();
        finish(&state, &mut out);
        let sh = shared.lock().unwrap();
        let v = *verdicts.lock().unwrap();
        let plan_out = plan_out.lock().unwrap();
        let atd = at_deadline.lock().unwrap();
        let controller_finished = state.notes.iter().any(|n| n == "controller-finished");
        if std::env::var("VERIF_TRACE").is_ok() {
            eprintln!("status={status:?} verdicts={v:?} errors={:?} final_ms={}", sh.errors, state.final_ms);
            eprintln!("planned={:?}\nsent={:?}\nrcvd={:?}\nat_deadline={:?}\nnew_connection={:?}", *plan_out, sh.sent, sh.rcvd, *atd, sh.new_connection);
            eprintln!("counters {:?}", state.counters);
            let ipv4 = TypeId::of::<Ipv4>();
            for f in state.frames.iter().filter(|f| f.protocol == ipv4).take(400) {
                eprintln!("  t={} ev={} x{} +{:?} {}", f.time_ms, f.event, f.copies, f.delays, describe_ipv4_frame(&f.bytes));
            }
        }
        for viol in &sh.violations {
            out.violate(viol.clone());
        }
        if status != Some(ExitStatus::Exited) || !controller_finished {
            out.violate(Violation::new("no-progress", "run-did-not-end", format!("TCP stack scenario did not reach its end (errors: {:?})", sh.errors)));
            return out;
        }
        // which connection does a TCP frame belong to, and did it carry a reset?
        let ipv4 = TypeId::of::<Ipv4>();
        let simul = simul_out.lock().unwrap().clone();
        let forger = *attacker_mac.lock().unwrap();
        let conn_of_frame = |f: &sim::FrameRec| -> Option<(usize, u8)> {
            if f.protocol != ipv4 || f.bytes.len() < 40 || f.bytes[9] != 6 || Some(f.sender) == forger {
                return None;
            }
            let t = &f.bytes[20..];
            let sp = u16::from_be_bytes([t[0], t[1]]);
            let dp = u16::from_be_bytes([t[2], t[3]]);
            let cp = if (CLIENT_PORT..CLIENT_PORT + 8).contains(&sp) { sp } else { dp };
            Some(((cp.wrapping_sub(CLIENT_PORT)) as usize, t[13]))
        };
        let mut reset: BTreeMap<usize, &sim::FrameRec> = BTreeMap::new();
        for f in &state.frames {
            if let Some((k, flags)) = conn_of_frame(f) {
                if flags & 0x04 != 0 {
                    reset.entry(k).or_insert(f);
                }
            }
        }
        // A simultaneous open only works when the two SYNs cross. A SYN that arrives before the other
        // side has issued its open meets a closed port and is refused with a reset, as RFC 9293
        // prescribes; nothing is asserted about such a connection but the safety of what it delivered.
        let waived = |k: usize| simul.get(k).copied().unwrap_or(false) && reset.contains_key(&k);
        for k in 0..v.n_conns {
            if waived(k) {
                out.count("probe_simultaneous_open_refused");
            } else if let Some(f) = reset.get(&k) {
                out.violate(Violation::new(
                    "reset",
                    if simul.get(k).copied().unwrap_or(false) { "simultaneous-open" } else { "active-against-passive" },
                    format!("connection {k}: a reset was sent at t={} ms although both applications kept the connection open: {}", f.time_ms, describe_ipv4_frame(&f.bytes)),
                ));
            }
        }
        for e in &sh.errors {
            let k = e.split_whitespace().find_map(|w| w.trim_end_matches(':').parse::<usize>().ok()).unwrap_or(99);
            if waived(k) {
                continue;
            }
            if e.contains("never got a session") {
                out.violate(Violation::new(
                    "liveness",
                    "connection-not-established",
                    format!("{e} although the network had been fair for 100 s"),
                ));
            } else {
                out.violate(Violation::new("stack", "open-failed", e.clone()));
            }
        }
        if !out.violations.is_empty() {
            return out;
        }
        out.add("stream_bytes_planned", v.total_bytes);
        if v.total_bytes > 65_535 {
            out.count("probe_more_than_one_window_of_data");
        }
        // every connection was announced to both applications (exactly once, checked below)
        for k in (0..v.n_conns).filter(|k| !waived(*k)) {
            for m in 0..2usize {
                if sh.new_connection.get(&(m, k)).copied().unwrap_or(0) == 0 {
                    out.violate(Violation::new(
                        "liveness",
                        "connection-not-announced",
                        format!("connection {k}: the application on machine {m} was never told that the connection is established ({} ms after the network became fair)", v.allowed_ms),
                    ));
                }
            }
        }
        // everything submitted was delivered, exactly once, by the deadline
        for ((m, k), planned) in plan_out.iter() {
            let fin = sh.rcvd.get(&(1 - *m, *k)).copied().unwrap_or(0);
            if fin > *planned {
                out.violate(Violation::new("prefix", "more-than-sent", format!("connection {k}: {fin} bytes delivered, {planned} submitted")));
            }
            if waived(*k) {
                continue;
            }
            let got = atd.get(&(1 - *m, *k)).copied().unwrap_or(0);
            if got < *planned {
                out.violate(Violation::new(
                    "liveness",
                    "data-not-delivered",
                    format!(
                        "connection {k}: machine {m} submitted {planned} bytes, machine {} had been handed {got} of them {} ms after the network became fair and the last write was issued (allowed: delay bound + (12 + 4 x windows) retransmission timeouts)",
                        1 - *m,
                        v.allowed_ms,
                    ),
                ));
            }
        }
        // both endpoints stop transmitting: no TCP frame after the deadline
        let late: Vec<&sim::FrameRec> = state
            .frames
            .iter()
            .filter(|f| f.time_ms > v.deadline_ms && conn_of_frame(f).map(|(k, _)| !waived(k)).unwrap_or(false))
            .collect();
        if let Some(f) = late.first() {
            if out.violations.is_empty() {
                out.violate(Violation::new(
                    "liveness",
                    "not-quiescent",
                    format!(
                        "{} TCP frames were sent after everything had been delivered and the liveness bound had passed (deadline t={} ms), first at t={} ms: {}",
                        late.len(),
                        v.deadline_ms,
                        f.time_ms,
                        describe_ipv4_frame(&f.bytes)
                    ),
                ));
            }
        }
        for ((m, k), n) in &sh.new_connection {
            if *n > 1 {
                out.violate(Violation::new("stack", "connection-announced-twice", format!("machine {m} connection {k}: {n} NewConnection notifications")));
            }
        }
        out
    }

    fn budget(&self, tier: &Tier) -> (u64, u64) {
        match tier {
            Tier::Quick => (20_000, if self.open_focus || self.byzantine { 20 } else { 30 }),
            Tier::Thorough => (2_000_000, if self.open_focus || self.byzantine { 600 } else { 1200 }),
        }
    }

    fn chunk(&self) -> u64 {
        20
    }

    fn describe(&self) -> ScenarioInfo {
        ScenarioInfo {
            engine: "E2 netsim".into(),
            level: "exploration".into(),
            rule: if self.byzantine {
                "the C01.stack scenario plus a third machine that, while the fault phase lasts, forges segments from the address and port of one endpoint of an established connection to the other: any of the 64 flag combinations (resets and SYNs included), any acknowledgment number and window, 0..120 octets of text, sequence number 2^30 above or below what the victim expects, i.e. entirely outside its receive window; every oracle of C01.stack must hold unchanged: the streams are delivered completely and exactly once, no legitimate endpoint sends a reset, every connection stays announced once, the wire falls silent".into()
            } else if self.open_focus {
                "the C01.stack scenario with the weight on opening: 1..6 connections between two machines, a third of them opened by both sides at the same instant, 0..2 tiny writes per side, listeners shared / separate / on the wildcard address, ARP on a third of the runs; unbounded loss, duplication and delay of every TCP frame during the fault phase; then on a fair network every connection is announced to both applications exactly once, nothing is reset (a simultaneous open whose SYN met a port not yet opened is the one legitimate refusal), the little data arrives, and the wire falls silent".into()
            } else {
                "one run = two machines with a harness application directly on the real Tcp protocol, 1..3 connections (active/passive, shared, separate or wildcard listener, or one simultaneous open), generated write scripts in both directions (1 B .. 200 KB per write, writes issued before the handshake completes), MTU 100..9000, latency jitter; fault phase: unbounded loss up to 50 %, duplication, delays up to 1.5 s (beyond the retransmission timeout) on every TCP frame; then a fair network: every byte delivered exactly once within delay bound + (12 + 4 x windows) retransmission timeouts of simulated time, then no TCP frame for 3 s; distinct = hash of decisions, frames and deliveries".into()
            },
            real_components: vec!["Tcp (open, listen, demux, session table), TcpSession (the 5 ms session loop), Tcb, Ipv4, Arp, Pci, Network, Machine, run_internet".into()],
            stub_components: vec!["the two applications (harness scripts directly above Tcp)".into()],
            fault_kinds: vec![
                "frame loss (unbounded while the fault phase lasts)".into(),
                "frame duplication".into(),
                "frame delay / reordering beyond the retransmission timeout".into(),
                "latency jitter".into(),
                "task-order perturbation (poll deferral)".into(),
                "write before the handshake completed".into(),
            ],
            assumptions: vec!["the shipped session never closes a connection (there is no close instruction), so the close clauses of C03 stay with engine E1".into()],
        }
    }
}
