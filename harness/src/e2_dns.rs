//! C20: name resolution returns the registered address and caches it.

use crate::common::*;
use crate::e2::*;
use crate::sim::{self, E2Case, FaultPlan};
use elvis_core::protocols::dns::dns_parsing::DnsMessage;
use elvis_core::protocols::ipv4::{Ipv4, Ipv4Address, Recipient};
use elvis_core::protocols::{Arp, DnsClient, DnsServer, Pci, SocketAPI, Udp};
use elvis_core::{ExitStatus, IpTable, Machine, Network};
use std::any::TypeId;
use std::collections::BTreeMap;
use std::sync::{Arc, Mutex};
use std::time::Duration;

pub struct Dns;

#[derive(Clone, Debug)]
struct Lookup {
    client: usize,
    name: String,
    call_event: u64,
    return_event: u64,
    result: Option<[u8; 4]>,
    /// the lookup went through Socket::connect_by_name; the datagram sent afterwards carries this id
    socket_marker: Option<u64>,
}

fn gen_name(i: usize) -> String {
    // printable, no space (the codec's delimiter), at most 24 bytes
    let charset = b"abcdefghijklmnopqrstuvwxyzABCDEFGHIJKLMNOPQRSTUVWXYZ0123456789.-_~!#$%&*+/=?^{|}";
    let len = 1 + sim::choose(24) as usize;
    let mut s = String::new();
    for k in 0..len {
        let c = if k == 0 {
            // make names pairwise distinct
            charset[i % charset.len()]
        } else {
            charset[sim::choose(charset.len() as u64) as usize]
        };
        s.push(c as char);
    }
    s
}

impl E2Run for Dns {
    fn id(&self) -> &'static str {
        "C20"
    }

    fn run(&self, case: &E2Case, _opts: &RunOpts) -> Outcome {
        let lookups: Arc<Mutex<Vec<Lookup>>> = Arc::new(Mutex::new(vec![]));
        let records: Arc<Mutex<BTreeMap<String, [u8; 4]>>> = Arc::new(Mutex::new(BTreeMap::new()));
        let macs: Arc<Mutex<Vec<u64>>> = Arc::new(Mutex::new(vec![]));
        let (l2, r2, m2) = (lookups.clone(), records.clone(), macs.clone());
        let (status, state) = sim::run_sim(case, default_cfg(), move || async move {
            draw_scheduler_knobs();
            let delay_pm = *[0u64, 300, 700].get(sim::choose(3) as usize).unwrap();
            sim::with_state(|s| {
                s.plan = FaultPlan {
                    delay: delay_pm,
                    max_delay_ms: 300,
                    ..Default::default()
                }
            });
            let net = Network::basic();
            sim::network_index(Arc::as_ptr(&net) as usize);
            let with_arp = sim::chance(1, 2);
            let n_names = 1 + sim::choose(8) as usize;
            let mut recs: Vec<(String, [u8; 4])> = vec![];
            for i in 0..n_names {
                let mut name = gen_name(i);
                // names that differ from an earlier one only in the case of their letters are different names
                if i > 0 && sim::chance(1, 4) {
                    let base: &String = &recs[sim::choose(i as u64) as usize].0;
                    let flipped: String = base
                        .chars()
                        .map(|c| if c.is_ascii_lowercase() { c.to_ascii_uppercase() } else { c.to_ascii_lowercase() })
                        .collect();
                    if flipped != *base && !recs.iter().any(|(n, _)| *n == flipped) {
                        name = flipped;
                        sim::count("probe_names_differing_only_in_case");
                    }
                }
                // names that look like something else: address literals, well-known host names, numbers
                if sim::chance(1, 8) {
                    let special = ["10.1.2.3", "0.0.0.0", "255.255.255.255", "127.0.0.1", "10.0.0.1", "localhost", "1", "0", ".", "a.b.c.d", "1.2.3", "1.2.3.4.5", "::1", "-", "*"];
                    let cand = special[sim::choose(special.len() as u64) as usize].to_string();
                    if !recs.iter().any(|(n, _)| *n == cand) {
                        name = cand;
                        sim::count("probe_name_that_looks_like_an_address_or_keyword");
                    }
                }
                let mut ip = [10 + sim::choose(200) as u8, sim::choose(256) as u8, sim::choose(256) as u8, 1 + sim::choose(254) as u8];
                // "arbitrary addresses" includes the ones code likes to treat as placeholders
                if sim::chance(1, 8) {
                    ip = *[[0u8, 0, 0, 0], [255, 255, 255, 255], [127, 0, 0, 1], [10, 0, 0, 1], [0, 0, 0, 1], [224, 0, 0, 1]].get(sim::choose(6) as usize).unwrap();
                    sim::count("probe_registered_address_is_a_special_one");
                }
                recs.push((name, ip));
            }
            for (n, ip) in &recs {
                r2.lock().unwrap().insert(n.clone(), *ip);
            }
            // stampede: many clients, each opening with several lookups at the same instant
            let stampede = sim::chance(1, 10);
            if stampede {
                sim::count("probe_stampede_of_simultaneous_first_lookups");
            }
            let n_clients = if stampede { 5 + sim::choose(6) as usize } else { 1 + sim::choose(6) as usize };
            // scripts: sequential lookups per client, repeats welcome
            // a script is a list of rounds; the lookups of a round (distinct names) are in
            // flight at the same time, rounds follow one another (repeats hit the cache)
            let mut scripts: Vec<Vec<(Vec<String>, u64)>> = vec![];
            let mut network_lookups = 0u16;
            for _ in 0..n_clients {
                let k = 1 + sim::choose(6) as usize;
                let mut seen: Vec<String> = vec![];
                let mut s = vec![];
                for round_no in 0..k {
                    let width = if stampede && round_no == 0 { 4 } else if sim::chance(1, 3) { 1 + sim::choose(3) as usize } else { 1 };
                    let mut round: Vec<String> = vec![];
                    for _ in 0..width {
                        let name = recs[sim::choose(recs.len() as u64) as usize].0.clone();
                        if !round.contains(&name) {
                            round.push(name);
                        }
                    }
                    for name in &round {
                        if !seen.contains(name) {
                            seen.push(name.clone());
                            network_lookups += 1;
                        }
                    }
                    if round.len() > 1 {
                        sim::count("probe_overlapping_lookups_on_one_client");
                    }
                    let gap = if stampede && round_no == 0 { 0 } else { sim::choose(3) * sim::choose(100) };
                    s.push((round, gap));
                }
                scripts.push(s);
            }
            let table = || -> IpTable<Recipient> { [("0.0.0.0/0", Recipient::new(0, None))].into_iter().collect() };
            let server = DnsServer::new(network_lookups);
            for (n, ip) in &recs {
                server.add_mapping(n.clone(), Ipv4Address::new(*ip));
            }
            let spci = Pci::new([net.clone()]);
            m2.lock().unwrap().push(spci.mac_addresses().next().unwrap());
            let mut sm = Machine::new()
                .with(server)
                .with(SocketAPI::new(Some(Ipv4Address::DNS_AUTH)))
                .with(Udp::new())
                .with(Ipv4::new(table()))
                .with(spci);
            if with_arp {
                sm = sm.with(Arp::new());
            }
            let mut machines = vec![sm.arc()];
            for (c, script) in scripts.into_iter().enumerate() {
                let pci = Pci::new([net.clone()]);
                m2.lock().unwrap().push(pci.mac_addresses().next().unwrap());
                let log = l2.clone();
                let recs_for_scripts = recs.clone();
                let app = App::<0>::new(c + 1).script(move |ctx: Ctx| async move {
                    let dns = ctx.machine.protocol::<DnsClient>().unwrap();
                    for (round, gap) in script {
                        if gap > 0 {
                            tokio::time::sleep(Duration::from_millis(gap)).await;
                        }
                        let mut pending = vec![];
                        for name in round {
                            let dns = dns.clone();
                            let machine = ctx.machine.clone();
                            let log = log.clone();
                            // without ARP a datagram socket can be connected to any address: some
                            // lookups go through Socket::connect_by_name, and the address it resolved
                            // is read off the datagram the socket sends afterwards
                            // (a datagram for a loopback address never reaches the wire)
                            let loopback = recs_for_scripts.iter().any(|(n, ip)| *n == name && ip[0] == 127);
                            let via_socket = !with_arp && !loopback && sim::chance(1, 4);
                            pending.push(elvis_core::verif::tokio::spawn(async move {
                                if via_socket {
                                    use elvis_core::protocols::socket_api::socket::{ProtocolFamily, SocketType};
                                    sim::count("probe_lookup_through_connect_by_name");
                                    let api = machine.protocol::<SocketAPI>().unwrap();
                                    let Ok(mut sock) = api.new_socket(ProtocolFamily::INET, SocketType::Datagram, machine.clone()).await else {
                                        return;
                                    };
                                    let marker = (0xD5u64 << 56) | ((c as u64) << 32) | sim::next_event();
                                    let call_event = sim::next_event();
                                    let ok = sock.connect_by_name(name.clone(), 4000).await.is_ok();
                                    let return_event = sim::next_event();
                                    if ok {
                                        let _ = sock.send(marked_payload(marker, 16));
                                    }
                                    log.lock().unwrap().push(Lookup {
                                        client: c,
                                        name,
                                        call_event,
                                        return_event,
                                        result: None,
                                        socket_marker: Some(marker),
                                    });
                                    return;
                                }
                                let call_event = sim::next_event();
                                let r = dns.get_host_by_name(name.clone(), machine).await;
                                let return_event = sim::next_event();
                                sim::note_trace(9, c as u64, r.is_ok() as u64);
                                log.lock().unwrap().push(Lookup {
                                    client: c,
                                    name,
                                    call_event,
                                    return_event,
                                    result: r.ok().map(|ip| ip.to_bytes()),
                                    socket_marker: None,
                                });
                            }));
                        }
                        for p in pending {
                            let _ = p.await;
                        }
                    }
                    let done = sim::with_state(|s| {
                        let d = s.counters.entry("clients_done".into()).or_insert(0);
                        *d += 1;
                        *d
                    });
                    if done == n_clients as u64 {
                        tokio::time::sleep(Duration::from_millis(500)).await;
                        ctx.shutdown.shut_down();
                    }
                });
                let mut m = Machine::new()
                    .with(DnsClient::new())
                    .with(SocketAPI::new(Some(Ipv4Address::new([10, 0, 0, 10 + c as u8]))))
                    .with(Udp::new())
                    .with(Ipv4::new(table()))
                    .with(pci)
                    .with(app);
                if with_arp {
                    m = m.with(Arp::new());
                }
                machines.push(m.arc());
            }
            run_machines(machines, 120_000).await
        });
        let mut out = Outcome::default();
        finish(&state, &mut out);
        out.counters.remove("clients_done");
        if status != Some(ExitStatus::Exited) {
            out.violate(Violation::new(
                "no-progress",
                "lookup-never-returned",
                format!("the DNS scenario ended with {status:?}: some lookup did not return within 120 s of simulated time"),
            ));
            return out;
        }
        let mut lookups = lookups.lock().unwrap().clone();
        let records = records.lock().unwrap().clone();
        let macs = macs.lock().unwrap().clone();
        let ipv4 = TypeId::of::<Ipv4>();
        // what connect_by_name resolved is the destination of the datagram the socket sent
        for l in lookups.iter_mut() {
            if let Some(marker) = l.socket_marker {
                l.result = state
                    .frames
                    .iter()
                    .find(|f| f.protocol == ipv4 && f.bytes.len() >= 36 && f.bytes[9] == 17 && payload_id(&f.bytes[28..]) == Some(marker))
                    .map(|f| [f.bytes[16], f.bytes[17], f.bytes[18], f.bytes[19]]);
            }
        }
        // every returned address is the registered one
        for l in &lookups {
            let want = records.get(&l.name).copied();
            if l.result != want {
                out.violate(Violation::new(
                    "wrong-address",
                    "",
                    format!("client {} resolved {:?} to {:?}, the server has {:?}", l.client, l.name, l.result, want),
                ));
            }
        }
        // cache: after the first success the client stays silent
        let mut known: BTreeMap<(usize, String), u64> = BTreeMap::new();
        for l in &lookups {
            let key = (l.client, l.name.clone());
            if let Some(_first) = known.get(&key) {
                out.count("probe_cached_lookup");
                let mac = macs[l.client + 1];
                let leaked = state
                    .frames
                    .iter()
                    .filter(|f| f.sender == mac && f.event > l.call_event && f.event < l.return_event)
                    .count();
                if leaked > 0 {
                    out.violate(Violation::new(
                        "cache",
                        "frame-during-cached-lookup",
                        format!("client {} put {leaked} frame(s) on the network while answering {:?} which it had resolved before", l.client, l.name),
                    ));
                }
            } else if l.result.is_some() {
                known.insert(key, l.return_event);
            }
        }
        // on the wire: a response delivered to (ip, port) echoes id and name of the query from (ip, port)
        let mut queries: BTreeMap<([u8; 4], u16), (u16, Vec<u8>)> = BTreeMap::new();
        for f in state.frames.iter().filter(|f| f.protocol == ipv4 && f.bytes.len() > 28 && f.bytes[9] == 17) {
            let b = &f.bytes;
            let src: [u8; 4] = b[12..16].try_into().unwrap();
            let dst: [u8; 4] = b[16..20].try_into().unwrap();
            let sport = u16::from_be_bytes([b[20], b[21]]);
            let dport = u16::from_be_bytes([b[22], b[23]]);
            let Ok(msg) = DnsMessage::from_bytes(b[28..].iter().copied()) else {
                continue;
            };
            if dport == 53 {
                queries.insert((src, sport), (msg.header.id, msg.question.qname.clone()));
                out.count("dns_queries_on_wire");
            } else if sport == 53 {
                out.count("dns_responses_on_wire");
                match queries.get(&(dst, dport)) {
                    Some((id, name)) => {
                        if *id != msg.header.id || *name != msg.question.qname || *name != msg.answer.name {
                            out.violate(Violation::new(
                                "wire",
                                "response-does-not-echo-query",
                                format!(
                                    "the response to {dst:?}:{dport} carries id {} question {:?} answer {:?}; that socket asked id {} name {:?}",
                                    msg.header.id,
                                    String::from_utf8_lossy(&msg.question.qname),
                                    String::from_utf8_lossy(&msg.answer.name),
                                    id,
                                    String::from_utf8_lossy(name)
                                ),
                            ));
                        }
                    }
                    None => out.violate(Violation::new("wire", "response-without-query", format!("a response went to {dst:?}:{dport} which never asked"))),
                }
            }
        }
        out.add("lookups", lookups.len() as u64);
        out
    }

    fn budget(&self, tier: &Tier) -> (u64, u64) {
        match tier {
            Tier::Quick => (100_000, 50),
            Tier::Thorough => (8_000_000, 1200),
        }
    }

    fn describe(&self) -> ScenarioInfo {
        ScenarioInfo {
            engine: "E2 netsim".into(),
            level: "exploration".into(),
            rule: "one run = one authoritative server with 1..8 generated records (printable names <= 24 bytes without the delimiter), 1..6 client machines each performing 1..8 sequential lookups (repeats exercise the cache) concurrently with the other clients, under seeded frame delays up to 300 ms and task-order perturbation; num_connections is set to the exact number of network lookups; distinct = hash of decisions, frames and results".into(),
            real_components: vec!["DnsClient, DnsServer, dns_parsing, SocketAPI, Socket (datagram), Udp, Ipv4, Arp, Pci, Network, run_internet".into()],
            stub_components: vec!["client applications (harness scripts)".into()],
            fault_kinds: vec!["frame delay / reordering".into(), "task-order perturbation (poll deferral, responder tasks included)".into()],
            assumptions: vec!["names fit the server's fixed 80-byte read".into(), "only names with a record are looked up; no loss (the client has no retry)".into()],
        }
    }
}
