//! Engine E2 `netsim` core: the whole real Elvis stack on one thread, on a
//! paused tokio clock (virtual discrete-event time), with a seeded scheduler
//! (poll deferral through the `verif` spawn shim), a seeded network (per-frame
//! verdicts through the `verif` frame hook) and seeded randomness.

use crate::common::*;
use crate::rng::{fnv, fnv_u64, Chooser, FNV_INIT};
use elvis_core::verif::{self, Copy as FrameCopy, FrameView, SimCtl, Verdict};
use serde::{Deserialize, Serialize};
use std::any::TypeId;
use std::cell::RefCell;
use std::collections::BTreeMap;
use std::future::Future;
use std::time::Duration;

/// What identifies one E2 run: the seed and the part of the decision stream
/// that is forced to the benign value 0 (used for shrinking).
#[derive(Serialize, Deserialize, Clone, Debug, Default)]
pub struct E2Case {
    pub seed: u64,
    #[serde(default)]
    pub opts: Option<RunOpts>,
    /// decisions with index >= limit are benign
    #[serde(default)]
    pub limit: Option<u64>,
    /// decisions with index in one of these ranges are benign
    #[serde(default)]
    pub zero: Vec<(u64, u64)>,
}

/// Per-frame fault plan of a run.
#[derive(Clone, Debug, Default)]
pub struct FaultPlan {
    /// per-mille probabilities
    pub drop: u64,
    pub dup: u64,
    pub delay: u64,
    pub corrupt: u64,
    /// maximal extra delay in ms
    pub max_delay_ms: u64,
    /// at most this many consecutive drops per (sender, destination, protocol) flow
    pub max_consecutive_drops: u32,
    /// only frames of these protocols are touched (empty = all)
    pub only_protocols: Vec<TypeId>,
    /// never touch frames of these protocols
    pub spare_protocols: Vec<TypeId>,
}

#[derive(Clone, Debug)]
pub struct FrameRec {
    pub event: u64,
    pub time_ms: u64,
    pub network: usize,
    pub sender: u64,
    pub destination: Option<u64>,
    pub protocol: TypeId,
    pub bytes: Vec<u8>,
    /// number of copies delivered (0 = dropped)
    pub copies: u32,
    pub delayed_ms: u64,
    /// extra delay of each delivered copy
    pub delays: Vec<u64>,
    pub corrupted: bool,
}

/// Custom per-frame decision of a scenario (fault enumeration, targeted faults).
pub type FramePolicy = Box<dyn FnMut(&FrameView, &mut SimState, u64) -> Option<Verdict>>;

pub struct SimState {
    pub chooser: Chooser,
    limit: Option<u64>,
    zero: Vec<(u64, u64)>,
    /// per-mille probability that a poll is deferred
    pub defer_pm: u64,
    pub max_burst: u32,
    pub plan: FaultPlan,
    pub policy: Option<FramePolicy>,
    pub frames: Vec<FrameRec>,
    pub keep_frame_bytes: bool,
    pub events: u64,
    pub polls: u64,
    pub poll_budget: u64,
    pub deferrals: u64,
    pub tasks: u64,
    pub counters: BTreeMap<String, u64>,
    pub trace: u64,
    pub shape: u64,
    consecutive_drops: BTreeMap<(u64, Option<u64>), u32>,
    /// map from Network pointer to index, in order of first appearance / registration
    pub networks: Vec<usize>,
    pub start: tokio::time::Instant,
    pub faults_enabled: bool,
    pub notes: Vec<String>,
    pub final_ms: u64,
    pub last_init_event: u64,
    pub first_demux_event: Option<u64>,
    pub first_frame_event: Option<u64>,
    /// what harness applications received
    pub rx: Vec<Rx>,
}

/// One `demux` call on a harness application.
#[derive(Clone, Debug)]
pub struct Rx {
    pub event: u64,
    pub time_ms: u64,
    pub machine: usize,
    pub app: usize,
    pub payload: Vec<u8>,
    pub pci: Option<elvis_core::protocols::pci::DemuxInfo>,
    pub ipv4: Option<elvis_core::protocols::ipv4::ipv4_parsing::Ipv4Header>,
    pub udp: Option<elvis_core::protocols::udp::UdpHeader>,
    pub endpoints: Option<elvis_core::protocols::Endpoints>,
}

thread_local! {
    static STATE: RefCell<Option<SimState>> = const { RefCell::new(None) };
}

/// Runs `f` on the simulator state of this thread.
pub fn with_state<R>(f: impl FnOnce(&mut SimState) -> R) -> R {
    STATE.with(|s| f(s.borrow_mut().as_mut().expect("no simulation running")))
}

pub fn try_with_state<R>(f: impl FnOnce(&mut SimState) -> R) -> Option<R> {
    STATE.with(|s| match s.try_borrow_mut() {
        Ok(mut g) => g.as_mut().map(f),
        Err(_) => None,
    })
}

/// The next global event number (histories are ordered by it).
pub fn next_event() -> u64 {
    with_state(|s| {
        s.events += 1;
        s.events
    })
}

pub fn now_ms() -> u64 {
    with_state(|s| s.start.elapsed().as_millis() as u64)
}

pub fn count(key: &str) {
    with_state(|s| *s.counters.entry(key.to_string()).or_insert(0) += 1);
}

pub fn note_trace(tag: u8, a: u64, b: u64) {
    with_state(|s| {
        fnv(&mut s.trace, &[tag]);
        fnv_u64(&mut s.trace, a);
        fnv_u64(&mut s.trace, b);
        fnv(&mut s.shape, &[tag]);
    });
}

/// A decision of the scenario itself, drawn from the run's decision stream.
pub fn choose(n: u64) -> u64 {
    with_state(|s| s.draw(n))
}

pub fn chance(num: u64, den: u64) -> bool {
    with_state(|s| {
        if num == 0 {
            return false;
        }
        let v = s.draw(den);
        v != 0 && v <= num
    })
}

pub fn network_index(ptr: usize) -> usize {
    with_state(|s| match s.networks.iter().position(|p| *p == ptr) {
        Some(i) => i,
        None => {
            s.networks.push(ptr);
            s.networks.len() - 1
        }
    })
}

impl SimState {
    /// One draw of the decision stream; benign (0) where the case says so.
    pub fn draw(&mut self, n: u64) -> u64 {
        let idx = self.chooser.draws() as u64;
        let v = self.chooser.below(n.max(1));
        let zeroed = self.limit.map(|l| idx >= l).unwrap_or(false)
            || self.zero.iter().any(|(a, b)| idx >= *a && idx < *b);
        let v = if zeroed { 0 } else { v };
        fnv_u64(&mut self.trace, v);
        v
    }

    fn chance_pm(&mut self, pm: u64) -> bool {
        if pm == 0 {
            return false;
        }
        let v = self.draw(1000);
        v != 0 && v <= pm
    }
}

struct Proxy;

impl SimCtl for Proxy {
    fn task_spawned(&mut self) -> u64 {
        try_with_state(|s| {
            s.tasks += 1;
            s.tasks
        })
        .unwrap_or(0)
    }

    fn defer(&mut self, task: u64, consecutive: u32) -> bool {
        try_with_state(|s| {
            s.polls += 1;
            if s.polls > s.poll_budget {
                // a run that never quiesces in zero virtual time
                panic!("livelock: poll budget of {} exceeded at virtual time {} ms", s.poll_budget, s.start.elapsed().as_millis());
            }
            if s.defer_pm == 0 || consecutive >= s.max_burst {
                return false;
            }
            if s.chance_pm(s.defer_pm) {
                s.deferrals += 1;
                fnv_u64(&mut s.trace, task);
                true
            } else {
                false
            }
        })
        .unwrap_or(false)
    }

    fn rand_u64(&mut self) -> u64 {
        try_with_state(|s| {
            // randomness of the stack itself (ISS, query ids, latency jitter):
            // a full-width draw; benign value is still 0
            let hi = s.draw(1 << 32);
            let lo = s.draw(1 << 32);
            (hi << 32) | lo
        })
        .unwrap_or(0x9E37_79B9_7F4A_7C15)
    }

    fn frame(&mut self, frame: &FrameView) -> Verdict {
        try_with_state(|s| {
            s.events += 1;
            let event = s.events;
            s.first_frame_event.get_or_insert(event);
            let time_ms = s.start.elapsed().as_millis() as u64;
            let network = match s.networks.iter().position(|p| *p == frame.network) {
                Some(i) => i,
                None => {
                    s.networks.push(frame.network);
                    s.networks.len() - 1
                }
            };
            let mut verdict = Verdict::deliver();
            let mut custom = false;
            if let Some(mut policy) = s.policy.take() {
                if let Some(v) = policy(frame, s, event) {
                    verdict = v;
                    custom = true;
                }
                s.policy = Some(policy);
            }
            let plan_applies = !custom
                && s.faults_enabled
                && (s.plan.only_protocols.is_empty() || s.plan.only_protocols.contains(&frame.protocol))
                && !s.plan.spare_protocols.contains(&frame.protocol);
            if plan_applies {
                let flow = (frame.sender, frame.destination);
                let drops = s.consecutive_drops.get(&flow).copied().unwrap_or(0);
                let (pdrop, pdup, pdelay, pcorrupt) = (s.plan.drop, s.plan.dup, s.plan.delay, s.plan.corrupt);
                if drops < s.plan.max_consecutive_drops && s.chance_pm(pdrop) {
                    s.consecutive_drops.insert(flow, drops + 1);
                    verdict = Verdict::drop();
                } else {
                    s.consecutive_drops.insert(flow, 0);
                    let mut copies = vec![FrameCopy::default()];
                    if s.chance_pm(pdup) {
                        copies.push(FrameCopy::default());
                    }
                    let max_delay = s.plan.max_delay_ms;
                    for c in copies.iter_mut() {
                        if max_delay > 0 && s.chance_pm(pdelay) {
                            c.delay = Duration::from_millis(1 + s.draw(max_delay));
                        }
                    }
                    if !frame.bytes.is_empty() && s.chance_pm(pcorrupt) {
                        let mut b = frame.bytes.clone();
                        let bit = s.draw(b.len() as u64 * 8);
                        b[(bit / 8) as usize] ^= 1 << (bit % 8);
                        copies[0].bytes = Some(b);
                    }
                    verdict = Verdict { copies };
                }
            }
            let copies = verdict.copies.len() as u32;
            let delayed_ms = verdict.copies.iter().map(|c| c.delay.as_millis() as u64).max().unwrap_or(0);
            let corrupted = verdict.copies.iter().any(|c| c.bytes.is_some());
            if copies == 0 {
                *s.counters.entry("fault_frame_dropped".into()).or_insert(0) += 1;
            }
            if copies > 1 {
                *s.counters.entry("fault_frame_duplicated".into()).or_insert(0) += 1;
            }
            if delayed_ms > 0 {
                *s.counters.entry("fault_frame_delayed".into()).or_insert(0) += 1;
            }
            if corrupted {
                *s.counters.entry("fault_frame_corrupted".into()).or_insert(0) += 1;
            }
            *s.counters.entry("frames".into()).or_insert(0) += 1;
            fnv(&mut s.trace, &[7, copies as u8]);
            fnv_u64(&mut s.trace, frame.sender << 20 ^ frame.destination.unwrap_or(0xfffff) ^ (frame.bytes.len() as u64) << 40);
            fnv_u64(&mut s.trace, time_ms);
            fnv(&mut s.shape, &[7, (frame.sender as u8) << 4 | frame.destination.unwrap_or(15) as u8, copies as u8]);
            s.frames.push(FrameRec {
                event,
                time_ms,
                network,
                sender: frame.sender,
                destination: frame.destination,
                protocol: frame.protocol,
                bytes: if s.keep_frame_bytes { frame.bytes.clone() } else { vec![] },
                copies,
                delayed_ms,
                delays: verdict.copies.iter().map(|c| c.delay.as_millis() as u64).collect(),
                corrupted,
            });
            verdict
        })
        .unwrap_or_else(Verdict::deliver)
    }
}

pub struct SimConfig {
    pub defer_pm: u64,
    pub max_burst: u32,
    pub plan: FaultPlan,
    pub policy: Option<FramePolicy>,
    pub keep_frame_bytes: bool,
    pub poll_budget: u64,
}

impl Default for SimConfig {
    fn default() -> Self {
        Self {
            defer_pm: 0,
            max_burst: 8,
            plan: FaultPlan::default(),
            policy: None,
            keep_frame_bytes: true,
            poll_budget: 3_000_000,
        }
    }
}

/// Runs one simulation: installs the simulator, builds a paused current-thread
/// runtime, runs `body` as a deferrable task and returns its output together
/// with the final simulator state.
pub fn run_sim<T: Send + 'static, F>(case: &E2Case, cfg: SimConfig, body: impl FnOnce() -> F) -> (Option<T>, SimState)
where
    F: Future<Output = T> + Send + 'static,
{
    let mut seed_bytes = [0u8; 32];
    seed_bytes[..8].copy_from_slice(&case.seed.to_le_bytes());
    let rt = tokio::runtime::Builder::new_current_thread()
        .enable_time()
        .start_paused(true)
        .rng_seed(tokio::runtime::RngSeed::from_bytes(&seed_bytes))
        .build()
        .expect("runtime");
    let out = rt.block_on(async {
        STATE.with(|s| {
            *s.borrow_mut() = Some(SimState {
                chooser: Chooser::new(case.seed ^ 0xE2E2_E2E2),
                limit: case.limit,
                zero: case.zero.clone(),
                defer_pm: cfg.defer_pm,
                max_burst: cfg.max_burst,
                plan: cfg.plan,
                policy: cfg.policy,
                frames: vec![],
                keep_frame_bytes: cfg.keep_frame_bytes,
                events: 0,
                polls: 0,
                poll_budget: cfg.poll_budget,
                deferrals: 0,
                tasks: 0,
                counters: BTreeMap::new(),
                trace: FNV_INIT,
                shape: FNV_INIT,
                consecutive_drops: BTreeMap::new(),
                networks: vec![],
                start: tokio::time::Instant::now(),
                faults_enabled: true,
                notes: vec![],
                final_ms: 0,
                last_init_event: 0,
                first_demux_event: None,
                first_frame_event: None,
                rx: vec![],
            });
        });
        verif::install(Box::new(Proxy));
        let fut = body();
        let handle = verif::tokio::spawn(fut);
        let r = handle.await.ok();
        with_state(|s| s.final_ms = s.start.elapsed().as_millis() as u64);
        r
    });
    // tasks that are still alive are dropped with the runtime, while the
    // simulator is still installed
    drop(rt);
    verif::uninstall();
    let state = STATE.with(|s| s.borrow_mut().take()).expect("state");
    (out, state)
}

/// Folds the bookkeeping of the simulator into an outcome.
pub fn finish(state: &SimState, out: &mut Outcome) {
    for (k, v) in &state.counters {
        out.add(k, *v);
    }
    out.add("scheduler_deferrals", state.deferrals);
    out.add("tasks_spawned", state.tasks);
    out.add("polls", state.polls);
    out.add("decisions_drawn", state.chooser.draws() as u64);
    out.steps = state.polls;
    out.sim_ms = state.start_elapsed_ms();
    let mut h = state.trace;
    fnv_u64(&mut h, state.events);
    out.trace_hash = h;
    out.shape_hash = state.shape;
    let faults = ["fault_frame_dropped", "fault_frame_duplicated", "fault_frame_delayed", "fault_frame_corrupted"]
        .iter()
        .any(|k| state.counters.get(*k).copied().unwrap_or(0) > 0);
    out.nontrivial = out.nontrivial || faults || state.deferrals > 0;
}

impl SimState {
    pub fn start_elapsed_ms(&self) -> u64 {
        self.final_ms
    }
}

/// Candidate reductions of an E2 case: shorter decision prefixes first, then
/// zeroed blocks.
pub fn shrink_e2(case: &E2Case, total_draws: Option<u64>) -> Vec<E2Case> {
    let mut out = vec![];
    let n = case.limit.or(total_draws).unwrap_or(1 << 16);
    for l in [0, n / 8, n / 4, n / 2, n * 3 / 4, n.saturating_sub(n / 8), n.saturating_sub(1)] {
        if l < n || case.limit.is_none() {
            let mut c = case.clone();
            c.limit = Some(l);
            out.push(c);
        }
    }
    let mut block = (n / 4).max(1);
    while block >= 1 && out.len() < 80 {
        let mut s = 0;
        while s < n {
            let e = (s + block).min(n);
            if !case.zero.iter().any(|(a, b)| *a <= s && e <= *b) {
                let mut c = case.clone();
                c.zero.push((s, e));
                out.push(c);
            }
            s = e;
        }
        if block == 1 {
            break;
        }
        block /= 4;
        if block == 0 {
            block = 1;
        }
    }
    out.dedup_by(|a, b| a.limit == b.limit && a.zero == b.zero);
    out
}
