//! Types shared by the engines, the worker and the supervisor.

use serde::{Deserialize, Serialize};
use serde_json::Value;
use std::collections::BTreeMap;

#[derive(Serialize, Deserialize, Clone, Debug, PartialEq, Eq)]
pub struct Violation {
    /// Which oracle fired (e.g. "panic", "prefix", "liveness")
    pub oracle: String,
    /// The class key used for known-finding matching and for minimisation:
    /// oracle + structural / call-site descriptor, free of seeds, addresses,
    /// sizes and line numbers.
    pub class: String,
    /// Human readable detail of this particular instance
    pub detail: String,
}

impl Violation {
    pub fn new(oracle: &str, class_suffix: &str, detail: String) -> Self {
        let class = if class_suffix.is_empty() {
            oracle.to_string()
        } else {
            format!("{oracle}|{class_suffix}")
        };
        Self {
            oracle: oracle.to_string(),
            class,
            detail,
        }
    }
}

#[derive(Serialize, Deserialize, Clone, Debug, Default)]
pub struct Outcome {
    pub violations: Vec<Violation>,
    /// fault kinds fired, reach probes, anything countable
    pub counters: BTreeMap<String, u64>,
    /// simulated milliseconds covered by the run
    pub sim_ms: u64,
    /// scheduler / event steps executed
    pub steps: u64,
    /// hash of the complete event log of the run
    pub trace_hash: u64,
    /// hash of the event-kind sequence (what "distinct interleaving" counts)
    pub shape_hash: u64,
    /// at least one fault fired or one scheduling decision differed from FIFO
    pub nontrivial: bool,
    /// replay only: the recorded decisions no longer fit the code
    pub diverged: bool,
    /// abstract states visited (hashes), for engines that measure them
    #[serde(default)]
    pub states: Vec<u64>,
}

impl Outcome {
    pub fn count(&mut self, key: &str) {
        *self.counters.entry(key.to_string()).or_insert(0) += 1;
    }

    pub fn add(&mut self, key: &str, n: u64) {
        *self.counters.entry(key.to_string()).or_insert(0) += n;
    }

    pub fn violate(&mut self, v: Violation) {
        // keep the list short: one instance per class
        if !self.violations.iter().any(|x| x.class == v.class) && self.violations.len() < 8 {
            self.violations.push(v);
        }
    }

    pub fn primary(&self) -> Option<&Violation> {
        self.violations.first()
    }
}

#[derive(Serialize, Deserialize, Clone, Debug, PartialEq, Eq)]
pub enum Tier {
    #[serde(rename = "quick")]
    Quick,
    #[serde(rename = "thorough")]
    Thorough,
}

#[derive(Serialize, Deserialize, Clone, Debug)]
pub struct RunOpts {
    pub tier: Tier,
    /// avoidance switches of known findings that are active for this run
    pub avoid: Vec<String>,
}

impl RunOpts {
    pub fn avoids(&self, key: &str) -> bool {
        self.avoid.iter().any(|k| k == key)
    }
}

/// A scenario decides one property (or one part of one).
pub trait Scenario: Sync + Send {
    fn id(&self) -> &'static str;
    /// Generates the case for `seed`, runs it, and returns it with its outcome.
    fn run_seed(&self, seed: u64, opts: &RunOpts) -> (Value, Outcome);
    /// Runs an explicit, previously recorded case.
    fn run_case(&self, case: &Value) -> Outcome;
    /// Candidate reductions of `case`, most aggressive first. The supervisor or
    /// the worker keeps a candidate when the same violation class persists.
    fn shrink(&self, case: &Value) -> Vec<Value>;
    /// true when a panic inside the run terminates the process (tokio engine)
    fn process_isolated(&self) -> bool {
        false
    }
    /// How many seeds a worker gets at once
    fn chunk(&self, _tier: &Tier) -> u64 {
        200
    }
    /// (runs, wall-clock cap in seconds) per tier
    fn budget(&self, tier: &Tier) -> (u64, u64);
    /// Avoidance switches this scenario understands
    fn avoid_switches(&self) -> Vec<&'static str> {
        vec![]
    }
    /// static description for the evidence file
    fn describe(&self) -> ScenarioInfo;
}

#[derive(Serialize, Deserialize, Clone, Debug, Default)]
pub struct ScenarioInfo {
    pub engine: String,
    pub level: String,
    pub rule: String,
    pub real_components: Vec<String>,
    pub stub_components: Vec<String>,
    pub fault_kinds: Vec<String>,
    pub assumptions: Vec<String>,
}

/// supervisor -> worker
#[derive(Serialize, Deserialize, Clone, Debug)]
#[serde(tag = "cmd")]
pub enum Request {
    #[serde(rename = "range")]
    Range {
        scenario: String,
        base: u64,
        start: u64,
        end: u64,
        opts: RunOpts,
        /// every n-th index (0 = none) runs with the avoidance switches off
        want_samples: u64,
    },
    #[serde(rename = "seed")]
    Seed {
        scenario: String,
        seed: u64,
        opts: RunOpts,
    },
    #[serde(rename = "case")]
    Case { scenario: String, case: Value },
    #[serde(rename = "minimise")]
    Minimise {
        scenario: String,
        case: Value,
        class: String,
        max_attempts: u64,
    },
}

#[derive(Serialize, Deserialize, Clone, Debug)]
pub struct Failure {
    pub index: u64,
    pub seed: u64,
    pub violation: Violation,
}

/// worker -> supervisor (one line each, prefixed by a letter)
#[derive(Serialize, Deserialize, Clone, Debug, Default)]
pub struct RangeResult {
    pub runs: u64,
    pub counters: BTreeMap<String, u64>,
    pub sim_ms: u64,
    pub steps: u64,
    pub nontrivial_runs: u64,
    pub diverged: u64,
    /// (trace hash, nontrivial) per run
    pub hashes: Vec<(u64, bool)>,
    pub shapes: Vec<u64>,
    pub states: Vec<u64>,
    pub failures: Vec<Failure>,
    pub samples: Vec<Value>,
}

#[derive(Serialize, Deserialize, Clone, Debug)]
pub struct CaseResult {
    pub case: Value,
    pub outcome: Outcome,
}

#[derive(Serialize, Deserialize, Clone, Debug)]
pub struct PanicInfo {
    pub file: String,
    pub line: u32,
    pub msg: String,
}

/// Normalises a panic into a class suffix that survives line shifts: file
/// basename + text of the source line (read from the tree) + message with
/// digits squashed.
pub fn panic_class(info: &PanicInfo) -> String {
    let base = info.file.rsplit('/').next().unwrap_or(&info.file).to_string();
    let line_text = source_line(&info.file, info.line).unwrap_or_default();
    let mut msg = String::new();
    let mut last_digit = false;
    for c in info.msg.chars() {
        if c.is_ascii_digit() {
            if !last_digit {
                msg.push('#');
            }
            last_digit = true;
        } else {
            last_digit = false;
            msg.push(c);
        }
    }
    // the tail of an unwrap()/expect() message is the offending value: not part of the class
    let msg: String = match msg.find("value:") {
        Some(p) if msg.contains("unwrap()") => msg[..p + 6].to_string(),
        _ => msg,
    };
    let msg: String = msg.split_whitespace().collect::<Vec<_>>().join(" ");
    let msg: String = msg.chars().take(80).collect();
    format!("{base}|{line_text}|{msg}")
}

pub fn source_line(file: &str, line: u32) -> Option<String> {
    // panic locations are paths as the compiler saw them; the repo is at /repo
    let repo = std::env::var("VERIF_REPO").unwrap_or_else(|_| "/repo".to_string());
    let candidates = [
        file.to_string(),
        format!("{repo}/sim/{file}"),
        format!("{repo}/sim/elvis-core/{file}"),
        format!("{repo}/sim/elvis/{file}"),
    ];
    for c in candidates {
        if let Ok(text) = std::fs::read_to_string(&c) {
            if let Some(l) = text.lines().nth(line.saturating_sub(1) as usize) {
                let norm: String = l.split_whitespace().collect::<Vec<_>>().join(" ");
                return Some(norm);
            }
        }
    }
    None
}

pub fn is_harness_file(file: &str) -> bool {
    file.starts_with("src/") || file.contains("/verif/harness/")
}
