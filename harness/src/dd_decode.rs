//! C14 direct-drive clause: no byte string makes a packet decoder panic and no
//! text makes the network description parser panic. (No schedule, no fault:
//! generated inputs through the same seed -> case -> minimise -> replay pipeline.)

use crate::common::*;
use crate::rng::{fnv, Rng, FNV_INIT};
use crate::worker::catching;
use elvis_core::protocols::arp::arp_parsing::ArpPacket;
use elvis_core::protocols::dhcp::dhcp_parsing::{DhcpMessage, MessageType};
use elvis_core::protocols::dns::dns_parsing::{DnsHeader, DnsMessage, DnsMessageType, DnsQuestion, DnsResourceRecord};
use elvis_core::protocols::ipv4::ipv4_parsing::{ControlFlags, Ipv4Header, TypeOfService};
use elvis_core::protocols::ipv4::Ipv4Address;
use elvis_core::protocols::tcp::verif_export::TcpHeaderBuilder;
use elvis_core::protocols::tcp::TcpHeader;
use elvis_core::protocols::udp::verif_export::build_udp_header;
use elvis_core::protocols::udp::UdpHeader;
use serde::{Deserialize, Serialize};
use serde_json::Value;

pub struct Decode;
pub static C14_DEC: Decode = Decode;

#[derive(Serialize, Deserialize, Clone, Debug)]
pub struct DCase {
    /// "ipv4" | "udp" | "tcp" | "arp" | "dns" | "dhcp" | "ndl"
    pub target: String,
    pub bytes: Vec<u8>,
}

const SRC: [u8; 4] = [10, 0, 0, 1];
const DST: [u8; 4] = [10, 0, 0, 2];

pub fn valid_packet(target: &str, rng: &mut Rng) -> Vec<u8> {
    let payload: Vec<u8> = (0..rng.below(40)).map(|_| rng.next_u64() as u8).collect();
    match target {
        "ipv4" => {
            let h = Ipv4Header {
                ihl: 5,
                type_of_service: TypeOfService::DEFAULT,
                total_length: 20 + payload.len() as u16,
                identification: rng.next_u64() as u16,
                fragment_offset: rng.below(100) as u16,
                flags: ControlFlags::new(rng.chance(1, 2), rng.chance(1, 2)),
                time_to_live: rng.next_u64() as u8,
                protocol: *rng.pick(&[6u8, 17, 1, 253]),
                checksum: 0,
                source: Ipv4Address::new(SRC),
                destination: Ipv4Address::new(DST),
            };
            let mut v = h.serialize().unwrap_or_default();
            v.extend(payload);
            v
        }
        "udp" => {
            let mut v = build_udp_header(
                Ipv4Address::new(SRC),
                rng.next_u64() as u16,
                Ipv4Address::new(DST),
                rng.next_u64() as u16,
                payload.iter().copied(),
                payload.len(),
            )
            .unwrap_or_default();
            v.extend(payload);
            v
        }
        "tcp" => {
            let mut b = TcpHeaderBuilder::new(rng.next_u64() as u16, rng.next_u64() as u16, rng.next_u64() as u32).wnd(rng.next_u64() as u16);
            if rng.chance(1, 2) {
                b = b.ack(rng.next_u64() as u32);
            }
            if rng.chance(1, 4) {
                b = b.syn();
            }
            if rng.chance(1, 4) {
                b = b.fin();
            }
            let h = b
                .build(Ipv4Address::new(SRC), Ipv4Address::new(DST), payload.iter().copied(), payload.len())
                .unwrap();
            let mut v = h.serialize();
            v.extend(payload);
            v
        }
        "arp" => {
            if rng.chance(1, 2) {
                ArpPacket::new_request(rng.next_u64() & 0xffff_ffff_ffff, Ipv4Address::new(SRC), Ipv4Address::new(DST)).build()
            } else {
                ArpPacket::new_reply(
                    rng.next_u64() & 0xffff_ffff_ffff,
                    Ipv4Address::new(SRC),
                    rng.next_u64() & 0xffff_ffff_ffff,
                    Ipv4Address::new(DST),
                )
                .build()
            }
        }
        "dns" => {
            let name: Vec<u8> = (0..1 + rng.below(20)).map(|_| b'a' + rng.below(26) as u8).collect();
            let header = DnsHeader::new(rng.next_u64() as u16, if rng.chance(1, 2) { DnsMessageType::QUERY } else { DnsMessageType::RESPONSE });
            let q = DnsQuestion::new(name.clone());
            let a = DnsResourceRecord::new(name, rng.next_u64() as u32, Ipv4Address::new(DST));
            DnsMessage::new(header, q, a).and_then(|m| m.to_message()).map(|m| m.to_vec()).unwrap_or_default()
        }
        "dhcp" => {
            let mut m = DhcpMessage::default();
            m.msg_type = match rng.below(5) {
                0 => MessageType::Discover,
                1 => MessageType::Offer,
                2 => MessageType::Request,
                3 => MessageType::Ack,
                _ => MessageType::Release,
            };
            m.your_ip = Ipv4Address::new(DST);
            DhcpMessage::to_message(m).map(|m| m.to_vec()).unwrap_or_default()
        }
        _ => valid_ndl(rng).into_bytes(),
    }
}

pub fn valid_ndl(rng: &mut Rng) -> String {
    let indent = if rng.chance(1, 2) { "\t" } else { "    " };
    let nl = if rng.chance(1, 4) { "\r\n" } else { "\n" };
    let mut s = String::new();
    let i = |n: usize| indent.repeat(n);
    s += &format!("[Networks]{nl}");
    s += &format!("{}[Network id='1']{nl}", i(1));
    s += &format!("{}[IP range='10.0.0.1-20']{nl}", i(2));
    if rng.chance(1, 2) {
        s += &format!("{}[IP ip='192.168.1.121']{nl}", i(2));
    }
    s += &format!("[Machines]{nl}");
    s += &format!("{}[Machine name='a' count='{}']{nl}", i(1), 1 + rng.below(3));
    s += &format!("{}[Networks]{nl}{}[Network id='1']{nl}", i(2), i(3));
    s += &format!("{}[Protocols]{nl}{}[Protocol name='IPv4']{nl}{}[Protocol name='UDP']{nl}", i(2), i(3), i(3));
    s += &format!("{}[Applications]{nl}{}[Application name='send_message' message='Hello!' to='b' port='0xbeef']{nl}", i(2), i(3));
    s += &format!("{}[Machine name='b']{nl}", i(1));
    s += &format!("{}[Networks]{nl}{}[Network id='1']{nl}", i(2), i(3));
    s += &format!("{}[Protocols]{nl}{}[Protocol name='IPv4']{nl}{}[Protocol name='UDP']{nl}", i(2), i(3), i(3));
    s += &format!("{}[Applications]{nl}{}[Application name='capture' ip='10.0.0.5' port='0xbeef' message_count='1']{nl}", i(2), i(3));
    s
}

fn mutate(target: &str, mut v: Vec<u8>, rng: &mut Rng) -> Vec<u8> {
    if target == "ndl" {
        let tokens: [&[u8]; 14] = [b"[", b"]", b"'", b"=", b"\t", b"    ", b"\n", b"\r\n", b"[IPtype x='1']", b"[Network id='1']", b"[Machine]", b"name", "\u{e9}".as_bytes(), b" "];
        // whitespace and other multi-byte characters where the grammar allows
        // blanks: right after a closing bracket, between arguments, at line ends
        if rng.chance(1, 3) {
            let text = String::from_utf8_lossy(&v).to_string();
            let spots: Vec<usize> = text.char_indices().filter(|(_, c)| *c == ']' || *c == ' ' || *c == '\n' || *c == '[').map(|(i, c)| i + c.len_utf8()).collect();
            if !spots.is_empty() {
                let at = spots[rng.below(spots.len() as u64) as usize];
                let ws = *rng.pick(&["\u{3000}", "\u{2003}", "\u{2028}", "\u{a0}", "\u{feff}", " ", "  ", "\t", "\u{1F600}", "\u{e9}"]);
                let mut t = text.clone();
                t.insert_str(at, ws);
                v = t.into_bytes();
            }
        }
        for _ in 0..rng.below(4) {
            if v.is_empty() {
                break;
            }
            let pos = rng.below(v.len() as u64 + 1) as usize;
            match rng.below(6) {
                0 => {
                    let t = rng.pick(&tokens);
                    v.splice(pos..pos, t.iter().copied());
                }
                1 => {
                    let end = (pos + 1 + rng.below(12) as usize).min(v.len());
                    v.drain(pos..end);
                }
                2 => v.truncate(pos),
                3 => {
                    // indentation change at a line start
                    if let Some(p) = v[..pos.min(v.len())].iter().rposition(|b| *b == b'\n') {
                        if rng.chance(1, 2) {
                            v.insert(p + 1, b'\t');
                        } else if p + 1 < v.len() && (v[p + 1] == b'\t' || v[p + 1] == b' ') {
                            v.remove(p + 1);
                        }
                    }
                }
                4 => {
                    // duplicate a line
                    let start = v[..pos.min(v.len())].iter().rposition(|b| *b == b'\n').map(|p| p + 1).unwrap_or(0);
                    let end = v[start..].iter().position(|b| *b == b'\n').map(|p| start + p + 1).unwrap_or(v.len());
                    let line: Vec<u8> = v[start..end].to_vec();
                    v.splice(start..start, line);
                }
                _ => {
                    if pos < v.len() {
                        v[pos] = *rng.pick(&[b'[', b']', b'\'', b'=', b'x', 0xc3, b'\t']);
                    }
                }
            }
        }
        return v;
    }
    if target == "ipv4" && v.len() >= 20 && rng.chance(1, 3) {
        // total length / flags / fragment offset extremes
        let tl = *rng.pick(&[0u16, 1, 5, 19, 20, 21, 28, 0x7fff, 0xffff]);
        v[2..4].copy_from_slice(&tl.to_be_bytes());
        let fo = *rng.pick(&[0u16, 1, 2, 3, 0x1fff, 0x1ffe]);
        let flags = *rng.pick(&[0u16, 0x2000, 0x4000, 0x6000]);
        v[6..8].copy_from_slice(&(flags | fo).to_be_bytes());
        return v;
    }
    match rng.below(8) {
        0 => {
            let n = rng.below(v.len() as u64 + 1) as usize;
            v.truncate(n);
        }
        1 | 2 => {
            for _ in 0..1 + rng.below(3) {
                if !v.is_empty() {
                    let bit = rng.below(v.len() as u64 * 8);
                    v[(bit / 8) as usize] ^= 1 << (bit % 8);
                }
            }
        }
        3 => {
            // extreme values in one byte / one 16-bit field
            if !v.is_empty() {
                let p = rng.below(v.len() as u64) as usize;
                v[p] = *rng.pick(&[0u8, 1, 7, 8, 0x7f, 0x80, 0xff]);
                if p + 1 < v.len() && rng.chance(1, 2) {
                    v[p + 1] = *rng.pick(&[0u8, 0xff]);
                }
            }
        }
        4 => {
            v = (0..rng.below(80)).map(|_| rng.next_u64() as u8).collect();
        }
        5 => {
            // drop the string terminators / delimiters
            v.retain(|b| *b != 0 && *b != b' ');
        }
        6 => {
            // non-UTF-8 bytes inside
            if v.len() > 4 {
                let p = v.len() - 1 - rng.below(v.len().min(24) as u64) as usize;
                v[p] = *rng.pick(&[0xffu8, 0xfe, 0xc3, 0x80]);
            }
        }
        _ => {
            v.extend((0..rng.below(30)).map(|_| rng.next_u64() as u8));
        }
    }
    v
}

pub fn decodes(target: &str, bytes: &[u8]) -> Result<bool, PanicInfo> {
    let s = Ipv4Address::new(SRC);
    let d = Ipv4Address::new(DST);
    match target {
        "ipv4" => catching(|| Ipv4Header::from_bytes(bytes.iter().copied()).is_ok()),
        "udp" => catching(|| UdpHeader::from_bytes_ipv4(bytes.iter().copied(), bytes.len(), s, d).is_ok()),
        "tcp" => catching(|| TcpHeader::from_bytes(bytes.iter().copied(), bytes.len(), s, d).is_ok()),
        "arp" => catching(|| ArpPacket::from_bytes(bytes.iter().copied()).is_ok()),
        "dns" => catching(|| DnsMessage::from_bytes(bytes.iter().copied()).is_ok()),
        "dhcp" => catching(|| DhcpMessage::from_bytes(bytes.iter().copied()).is_ok()),
        _ => {
            let path = format!("/tmp/dst-ndl-{}-{:?}.ndl", std::process::id(), std::thread::current().id());
            if std::fs::write(&path, bytes).is_err() {
                return Ok(false);
            }
            // the parser reads the file as a string: only valid UTF-8 is a text
            if std::str::from_utf8(bytes).is_err() {
                let _ = std::fs::remove_file(&path);
                return Ok(false);
            }
            let r = catching(|| elvis::ndl::core_parser(path.clone()).is_ok());
            let _ = std::fs::remove_file(&path);
            r
        }
    }
}

fn run(case: &DCase) -> Outcome {
    let mut out = Outcome::default();
    let mut h = FNV_INIT;
    fnv(&mut h, case.target.as_bytes());
    fnv(&mut h, &case.bytes);
    out.trace_hash = h;
    out.shape_hash = h;
    out.steps = 1;
    match decodes(&case.target, &case.bytes) {
        Ok(ok) => {
            out.count(&format!("{}_{}", case.target, if ok { "accepted" } else { "rejected" }));
            out.nontrivial = !ok;
        }
        Err(p) => {
            out.nontrivial = true;
            let oracle = if is_harness_file(&p.file) { "harness-panic" } else { "panic" };
            out.violate(Violation::new(
                oracle,
                &format!("{}|{}", case.target, panic_class(&p)),
                format!("{} decoder panicked at {}:{}: {} on {} bytes", case.target, p.file, p.line, p.msg, case.bytes.len()),
            ));
        }
    }
    out
}

fn generate(seed: u64, opts: &RunOpts) -> DCase {
    let mut rng = Rng::new(seed);
    let mut targets = vec!["ipv4", "udp", "tcp", "arp", "dns", "dhcp", "dhcp", "ndl", "ndl"];
    if opts.avoids("no_dhcp_decoder") {
        targets.retain(|t| *t != "dhcp");
    }
    if opts.avoids("no_ndl_parser") {
        targets.retain(|t| *t != "ndl");
    }
    let target = *rng.pick(&targets);
    let base = valid_packet(target, &mut rng);
    let bytes = if rng.chance(1, 10) { base } else { mutate(target, base, &mut rng) };
    DCase {
        target: target.to_string(),
        bytes,
    }
}

impl Scenario for Decode {
    fn id(&self) -> &'static str {
        "C14.dec"
    }

    fn run_seed(&self, seed: u64, opts: &RunOpts) -> (Value, Outcome) {
        let case = generate(seed, opts);
        let out = run(&case);
        (serde_json::to_value(&case).unwrap(), out)
    }

    fn run_case(&self, case: &Value) -> Outcome {
        match serde_json::from_value::<DCase>(case.clone()) {
            Ok(c) => run(&c),
            Err(e) => {
                let mut o = Outcome::default();
                o.violate(Violation::new("harness-panic", "bad-case", format!("{e}")));
                o
            }
        }
    }

    fn shrink(&self, case: &Value) -> Vec<Value> {
        let Ok(c) = serde_json::from_value::<DCase>(case.clone()) else {
            return vec![];
        };
        let mut out = vec![];
        let n = c.bytes.len();
        let mut size = n / 2;
        while size >= 1 {
            let mut s = 0;
            while s < n {
                let mut x = c.clone();
                x.bytes.drain(s..(s + size).min(n));
                out.push(x);
                s += size;
            }
            if size == 1 || out.len() > 300 {
                break;
            }
            size /= 2;
        }
        out.into_iter().map(|c| serde_json::to_value(&c).unwrap()).collect()
    }

    fn chunk(&self, _tier: &Tier) -> u64 {
        2000
    }

    fn budget(&self, tier: &Tier) -> (u64, u64) {
        match tier {
            Tier::Quick => (1_000_000, 40),
            Tier::Thorough => (100_000_000, 600),
        }
    }

    fn avoid_switches(&self) -> Vec<&'static str> {
        vec!["no_dhcp_decoder", "no_ndl_parser"]
    }

    fn describe(&self) -> ScenarioInfo {
        ScenarioInfo {
            engine: "direct".into(),
            level: "exploration".into(),
            rule: "direct-drive (no schedule, no fault): valid IPv4/UDP/TCP/ARP/DNS/DHCP packets built by the real encoders and valid NDL texts, mutated by truncation at any length, bit flips, extreme field values, random bytes, dropped terminators, non-UTF-8 bytes, token insertion/deletion, indentation changes, line duplication; each decoder / core_parser must return Ok or Err without unwinding; non-trivial = the input was rejected".into(),
            real_components: vec!["Ipv4Header::from_bytes, UdpHeader::from_bytes_ipv4, TcpHeader::from_bytes, ArpPacket::from_bytes, DnsMessage::from_bytes, DhcpMessage::from_bytes, ndl::core_parser".into()],
            stub_components: vec![],
            fault_kinds: vec![],
            assumptions: vec!["non-UTF-8 files are not 'texts' for the NDL parser (it reads the file as a string)".into()],
        }
    }
}
