//! C05: the simulated link delivers frames as configured, to the right taps.

use crate::common::*;
use crate::e2::*;
use crate::sim::{self, E2Case};
use elvis_core::network::{Baud, Latency, NetworkBuilder, Throughput};
use elvis_core::protocols::Pci;
use elvis_core::session::SendError;
use elvis_core::{new_machine_arc, ExitStatus, Network};
use std::any::TypeId;
use std::collections::BTreeMap;
use std::sync::{Arc, Mutex};
use std::time::Duration;

pub struct Link;

#[derive(Clone, Debug)]
struct NetCfg {
    mtu: Option<u16>,
    lat_base: u64,
    lat_rand: u64,
    thr_base: u64,
    thr_rand: u64,
}

#[derive(Clone, Debug)]
struct Send {
    id: u64,
    event: u64,
    time_ms: u64,
    net: usize,
    sender_mac: u64,
    dest: Option<u64>,
    len: usize,
    ok: bool,
}

impl E2Run for Link {
    fn id(&self) -> &'static str {
        "C05"
    }

    fn run(&self, case: &E2Case, _opts: &RunOpts) -> Outcome {
        let sends: Arc<Mutex<Vec<Send>>> = Arc::new(Mutex::new(vec![]));
        let topo: Arc<Mutex<(Vec<NetCfg>, Vec<Vec<(usize, u64)>>)>> = Arc::new(Mutex::new((vec![], vec![])));
        let sends2 = sends.clone();
        let topo2 = topo.clone();
        let (status, state) = sim::run_sim(case, default_cfg(), move || async move {
            draw_scheduler_knobs();
            let n_nets = 1 + sim::choose(3) as usize;
            let mut cfgs = vec![];
            let mut nets: Vec<Arc<Network>> = vec![];
            for _ in 0..n_nets {
                let mtu = match sim::choose(4) {
                    0 => None,
                    1 => Some(64u16),
                    2 => Some(100 + sim::choose(1400) as u16),
                    _ => Some(1500),
                };
                let (lat_base, lat_rand) = match sim::choose(4) {
                    0 => (0, 0),
                    1 => (1 + sim::choose(50), 0),
                    2 => (sim::choose(20), 1 + sim::choose(40)),
                    _ => (200, 0),
                };
                let (thr_base, thr_rand) = match sim::choose(4) {
                    0 | 1 => (0, 0),
                    2 => (1000 + sim::choose(100_000), 0),
                    _ => (2000 + sim::choose(20_000), 1 + sim::choose(5000)),
                };
                let mut b = NetworkBuilder::new();
                if let Some(m) = mtu {
                    b = b.mtu(m);
                }
                if lat_rand > 0 {
                    b = b.latency(Latency::variable(
                        Duration::from_millis(lat_base),
                        Duration::from_millis(lat_rand),
                    ));
                } else if lat_base > 0 {
                    b = b.latency(Latency::constant(Duration::from_millis(lat_base)));
                }
                if thr_rand > 0 {
                    b = b.throughput(Throughput::variable(
                        Baud::bytes_per_second(thr_base),
                        Baud::bytes_per_second(thr_rand),
                    ));
                } else if thr_base > 0 {
                    b = b.throughput(Throughput::constant(Baud::bytes_per_second(thr_base)));
                }
                let net = b.build();
                sim::network_index(Arc::as_ptr(&net) as usize);
                nets.push(net);
                cfgs.push(NetCfg {
                    mtu,
                    lat_base,
                    lat_rand,
                    thr_base,
                    thr_rand,
                });
            }
            let n_machines = 1 + sim::choose(5) as usize;
            // taps[m] = [(network index, mac)] in slot order
            let mut taps: Vec<Vec<(usize, u64)>> = vec![];
            let mut pcis = vec![];
            for _ in 0..n_machines {
                let n_taps = 1 + sim::choose(3) as usize;
                let mut my = vec![];
                let mut my_nets = vec![];
                for _ in 0..n_taps {
                    let ni = sim::choose(n_nets as u64) as usize;
                    my_nets.push(nets[ni].clone());
                    my.push(ni);
                }
                let pci = Pci::new(my_nets);
                let macs: Vec<u64> = pci.mac_addresses().collect();
                taps.push(my.iter().copied().zip(macs.into_iter()).collect());
                pcis.push(pci);
            }
            *topo2.lock().unwrap() = (cfgs.clone(), taps.clone());
            let n_sends = 1 + sim::choose(12) as usize;
            let mut machines = vec![];
            let mut next_id = 1u64;
            for (m, pci) in pcis.into_iter().enumerate() {
                // plan this machine's sends
                let mut plan = vec![];
                let mine = if m == 0 { n_sends } else { sim::choose(4) as usize };
                for _ in 0..mine {
                    let slot = sim::choose(taps[m].len() as u64) as usize;
                    let ni = taps[m][slot].0;
                    let on_net: Vec<u64> = taps
                        .iter()
                        .flat_map(|t| t.iter().filter(|(n, _)| *n == ni).map(|(_, mac)| *mac))
                        .collect();
                    let dest = match sim::choose(6) {
                        0 => None,
                        1 => Some(Network::BROADCAST_MAC),
                        2 => Some(1000 + sim::choose(5)), // nobody owns it
                        _ => Some(on_net[sim::choose(on_net.len() as u64) as usize]),
                    };
                    let mtu = cfgs[ni].mtu.unwrap_or(u16::MAX) as usize;
                    let len = match sim::choose(6) {
                        0 => mtu.saturating_sub(1).max(8),
                        1 => mtu.max(8),
                        2 => mtu + 1,
                        3 => 8,
                        _ => 8 + sim::choose((mtu.min(3000) as u64).saturating_sub(8).max(1)) as usize,
                    };
                    let len = len.min(70_000);
                    let gap = if sim::chance(1, 3) { sim::choose(30) } else { 0 };
                    plan.push((next_id, slot, ni, dest, len, gap));
                    next_id += 1;
                }
                let my_taps = taps[m].clone();
                let sends = sends2.clone();
                let last = m + 1 == n_machines;
                let app = App::<0>::new(m).script(move |ctx: Ctx| async move {
                    for (id, slot, ni, dest, len, gap) in plan {
                        if gap > 0 {
                            tokio::time::sleep(Duration::from_millis(gap)).await;
                        }
                        let session = ctx.machine.protocol::<Pci>().unwrap().open(slot as u32);
                        let payload = marked_payload(id, len);
                        let event = sim::next_event();
                        let time_ms = sim::now_ms();
                        let r = session.send_pci(payload.into(), dest, TypeId::of::<App<0>>());
                        let ok = match r {
                            Ok(()) => true,
                            Err(SendError::Mtu(_)) => false,
                            Err(_) => false,
                        };
                        sim::note_trace(4, id, ok as u64);
                        sends.lock().unwrap().push(Send {
                            id,
                            event,
                            time_ms,
                            net: ni,
                            sender_mac: my_taps[slot].1,
                            dest,
                            len,
                            ok,
                        });
                    }
                    if last {
                        // let every frame arrive, then end the run
                        // (the slowest network needs up to ~66 s per maximal frame)
                        tokio::time::sleep(Duration::from_secs(4000)).await;
                        ctx.shutdown.shut_down();
                    }
                });
                machines.push(new_machine_arc![pci, app]);
            }
            run_machines(machines, 10_000_000).await
        });
        let mut out = Outcome::default();
        finish(&state, &mut out);
        let (cfgs, taps) = topo.lock().unwrap().clone();
        let sends = sends.lock().unwrap().clone();
        if std::env::var("VERIF_TRACE").is_ok() {
            eprintln!("cfgs {cfgs:?}\ntaps {taps:?}");
            for s in &sends {
                eprintln!("send {s:?}");
            }
            for r in &state.rx {
                eprintln!("rx ev={} t={} m={} id={:?} pci={:?}", r.event, r.time_ms, r.machine, payload_id(&r.payload), r.pci);
            }
            for f in &state.frames {
                eprintln!("frame ev={} t={} net={} {:#x}->{:?} id={:?} copies={}", f.event, f.time_ms, f.network, f.sender, f.destination, payload_id(&f.bytes), f.copies);
            }
        }
        if status != Some(ExitStatus::Exited) {
            out.violate(Violation::new(
                "harness-panic",
                "unexpected-exit",
                format!("link scenario ended with {status:?}"),
            ));
            return out;
        }
        // every tap on a network has a distinct hardware address
        for ni in 0..cfgs.len() {
            let mut macs: Vec<u64> = taps
                .iter()
                .flat_map(|t| t.iter().filter(|(n, _)| *n == ni).map(|(_, m)| *m))
                .collect();
            let before = macs.len();
            macs.sort();
            macs.dedup();
            if macs.len() != before {
                out.violate(Violation::new(
                    "mac-not-unique",
                    "",
                    format!("two taps on network {ni} share a hardware address"),
                ));
            }
        }
        // owner of a mac on a network: (machine, slot)
        let owner = |ni: usize, mac: u64| -> Option<(usize, usize)> {
            for (m, t) in taps.iter().enumerate() {
                for (slot, (n, mc)) in t.iter().enumerate() {
                    if *n == ni && *mc == mac {
                        return Some((m, slot));
                    }
                }
            }
            None
        };
        let mut rx_by_id: BTreeMap<u64, Vec<&sim::Rx>> = BTreeMap::new();
        for r in &state.rx {
            match payload_id(&r.payload) {
                Some(id) => rx_by_id.entry(id).or_default().push(r),
                None => out.violate(Violation::new(
                    "foreign-payload",
                    "",
                    "a probe received a frame nobody sent".into(),
                )),
            }
        }
        for s in &sends {
            let mtu = cfgs[s.net].mtu.unwrap_or(u16::MAX) as usize;
            let rxs = rx_by_id.get(&s.id).cloned().unwrap_or_default();
            let on_wire = state
                .frames
                .iter()
                .filter(|f| payload_id(&f.bytes) == Some(s.id))
                .count();
            if s.len > mtu {
                out.count("probe_over_mtu_send");
                if s.ok || on_wire > 0 || !rxs.is_empty() {
                    out.violate(Violation::new(
                        "mtu",
                        "oversize-frame-accepted",
                        format!("a {}-byte frame on a network with MTU {mtu}: send returned ok={}, {on_wire} frames on the wire, {} deliveries", s.len, s.ok, rxs.len()),
                    ));
                }
                continue;
            }
            if s.len == mtu {
                out.count("probe_exactly_mtu_send");
            }
            if !s.ok {
                out.violate(Violation::new(
                    "mtu",
                    "fitting-frame-refused",
                    format!("a {}-byte frame on a network with MTU {mtu} was refused", s.len),
                ));
                continue;
            }
            if on_wire != 1 {
                out.violate(Violation::new(
                    "wire-count",
                    "",
                    format!("frame {} appeared {on_wire} times on the wire", s.id),
                ));
            }
            // expected receivers
            let broadcast = s.dest.is_none() || s.dest == Some(Network::BROADCAST_MAC);
            let expected: Vec<(usize, usize)> = if broadcast {
                out.count("probe_broadcast");
                taps.iter()
                    .enumerate()
                    .flat_map(|(m, t)| {
                        t.iter()
                            .enumerate()
                            .filter(|(_, (n, mac))| *n == s.net && *mac != s.sender_mac)
                            .map(move |(slot, _)| (m, slot))
                    })
                    .collect()
            } else {
                match owner(s.net, s.dest.unwrap()) {
                    Some(o) => vec![o],
                    None => {
                        out.count("probe_unknown_destination");
                        vec![]
                    }
                }
            };
            // each expected (machine, slot) exactly once; nobody else (the
            // sender's own tap on a broadcast is tolerated)
            let mut seen: BTreeMap<(usize, usize), u32> = BTreeMap::new();
            for r in &rxs {
                let Some(info) = r.pci else {
                    out.violate(Violation::new("demux-info", "missing", "no link information in Control".into()));
                    continue;
                };
                *seen.entry((r.machine, info.slot as usize)).or_insert(0) += 1;
                let want_payload = marked_payload(s.id, s.len);
                if r.payload != want_payload {
                    out.violate(Violation::new("payload", "changed", format!("frame {} arrived with a changed payload", s.id)));
                }
                if info.source != s.sender_mac {
                    out.violate(Violation::new(
                        "demux-info",
                        "source",
                        format!("frame {} from {:#x} arrived with source {:#x}", s.id, s.sender_mac, info.source),
                    ));
                }
                if info.mtu as usize != mtu {
                    out.violate(Violation::new("demux-info", "mtu", format!("frame {} reported mtu {} on a network with {mtu}", s.id, info.mtu)));
                }
                if info.destination != s.dest {
                    out.violate(Violation::new("demux-info", "destination", format!("frame {} sent to {:?} arrived marked {:?}", s.id, s.dest, info.destination)));
                }
                // the slot must be a tap of that machine on that network
                match taps[r.machine].get(info.slot as usize) {
                    Some((n, _)) if *n == s.net => {}
                    _ => out.violate(Violation::new("demux-info", "slot", format!("frame {} arrived on slot {} of machine {} which is not on network {}", s.id, info.slot, r.machine, s.net))),
                }
                // timing: never earlier than latency and serialisation allow
                let c = &cfgs[s.net];
                let fastest = c.thr_base + c.thr_rand;
                let ser = if c.thr_base > 0 {
                    s.len as u64 * 1000 / fastest.max(1)
                } else {
                    0
                };
                let earliest = s.time_ms + c.lat_base + ser;
                if r.time_ms < earliest {
                    out.violate(Violation::new(
                        "timing",
                        "too-early",
                        format!("frame {} ({} bytes) sent at {} ms arrived at {} ms; latency {} ms and throughput {} B/s allow {} ms at the earliest", s.id, s.len, s.time_ms, r.time_ms, c.lat_base, c.thr_base, earliest),
                    ));
                }
                if c.thr_base == 0 && r.time_ms > s.time_ms + c.lat_base + c.lat_rand {
                    out.violate(Violation::new(
                        "timing",
                        "too-late",
                        format!("frame {} sent at {} ms arrived at {} ms on a network with latency {}+{} ms and unlimited throughput", s.id, s.time_ms, r.time_ms, c.lat_base, c.lat_rand),
                    ));
                }
            }
            for e in &expected {
                let n = seen.get(e).copied().unwrap_or(0);
                if n != 1 {
                    out.violate(Violation::new(
                        "delivery",
                        if n == 0 { "missing" } else { "duplicated" },
                        format!("frame {} (dest {:?}) reached tap (machine {}, slot {}) {n} times on a loss-free network", s.id, s.dest, e.0, e.1),
                    ));
                }
            }
            for (who, n) in &seen {
                if !expected.contains(who) {
                    let own = taps[who.0].get(who.1).map(|(_, mac)| *mac == s.sender_mac).unwrap_or(false);
                    if broadcast && own {
                        out.add("probe_broadcast_reached_senders_own_tap", *n as u64);
                    } else {
                        out.violate(Violation::new(
                            "delivery",
                            "third-party",
                            format!("frame {} (dest {:?}) was delivered to tap (machine {}, slot {}) which does not own that address", s.id, s.dest, who.0, who.1),
                        ));
                    }
                }
            }
        }
        // throughput: with a constant rate and constant latency, transmissions on one network never overlap
        for (ni, c) in cfgs.iter().enumerate() {
            if c.thr_base == 0 || c.thr_rand != 0 || c.lat_rand != 0 {
                continue;
            }
            let mut done: Vec<(u64, u64, u64)> = vec![]; // (completion, duration, id)
            for s in sends.iter().filter(|s| s.net == ni && s.ok) {
                if let Some(r) = rx_by_id.get(&s.id).and_then(|v| v.iter().map(|r| r.time_ms).min()) {
                    done.push((r.saturating_sub(c.lat_base), s.len as u64 * 1000 / c.thr_base, s.id));
                }
            }
            // by completion; a zero-length transmission may end where a long one ends
            done.sort_by(|a, b| a.0.cmp(&b.0).then(b.1.cmp(&a.1)));
            for w in done.windows(2) {
                if w[1].0 < w[0].0 + w[1].1 {
                    out.count("probe_throughput_contention");
                    out.violate(Violation::new(
                        "timing",
                        "faster-than-throughput",
                        format!("network {ni} at {} B/s: frame {} finished at {} ms and frame {} (needing {} ms of medium) at {} ms", c.thr_base, w[0].2, w[0].0, w[1].2, w[1].1, w[1].0),
                    ));
                }
            }
            if done.len() > 1 {
                out.count("probe_throughput_serialised_frames");
            }
        }
        out.add("sends", sends.len() as u64);
        out
    }

    fn budget(&self, tier: &Tier) -> (u64, u64) {
        match tier {
            Tier::Quick => (100_000, 50),
            Tier::Thorough => (6_000_000, 1200),
        }
    }

    fn chunk(&self) -> u64 {
        100
    }

    fn describe(&self) -> ScenarioInfo {
        ScenarioInfo {
            engine: "E2 netsim".into(),
            level: "exploration".into(),
            rule: "one run = a generated set of 1..3 networks (MTU, constant/variable latency and throughput) and 1..5 machines with 1..3 taps each, a plan of concurrent send_pci calls (unicast to any tap, unknown address, broadcast, sizes around the MTU), executed on the real Network/Pci under a seeded task scheduler on virtual time; non-trivial = the scheduler deferred at least one poll; distinct = hash of all decisions, frames and deliveries".into(),
            real_components: vec!["Network (send, latency, throughput permit, fan-out)".into(), "Pci, PciSession".into(), "Machine, run_internet".into()],
            stub_components: vec!["harness probe protocol as the frame target on every machine".into()],
            fault_kinds: vec!["task-order perturbation (poll deferral)".into(), "seeded latency/throughput jitter".into()],
            assumptions: vec!["delivery of a broadcast frame to the sender's own tap is neither required nor forbidden".into(), "virtual time: tokio paused clock".into()],
        }
    }
}
