//! Engine E2: scenario plumbing shared by all tokio-stack scenarios - the
//! `Scenario` adapter, harness applications (script + recorder), helpers.

use crate::common::*;
use crate::sim::{self, E2Case, Rx, SimConfig, SimState};
use elvis_core::protocol::{DemuxError, StartError};
use elvis_core::protocols::ipv4::ipv4_parsing::Ipv4Header;
use elvis_core::protocols::pci;
use elvis_core::protocols::udp::UdpHeader;
use elvis_core::protocols::Endpoints;
use elvis_core::{Control, Machine, Message, Protocol, Session, Shutdown};
use serde_json::Value;
use std::future::Future;
use std::pin::Pin;
use std::sync::{Arc, Mutex};
use tokio::sync::Barrier;

pub type BoxFut = Pin<Box<dyn Future<Output = ()> + Send + 'static>>;

/// What a scenario implements.
pub trait E2Run: Sync + Send {
    fn id(&self) -> &'static str;
    fn run(&self, case: &E2Case, opts: &RunOpts) -> Outcome;
    fn budget(&self, tier: &Tier) -> (u64, u64);
    fn describe(&self) -> ScenarioInfo;
    fn avoid_switches(&self) -> Vec<&'static str> {
        vec![]
    }
    fn chunk(&self) -> u64 {
        50
    }
}

pub struct E2<T: E2Run>(pub T);

fn parse_case(v: &Value) -> Option<E2Case> {
    serde_json::from_value::<E2Case>(v.clone()).ok()
}

impl<T: E2Run> Scenario for E2<T> {
    fn id(&self) -> &'static str {
        self.0.id()
    }

    fn run_seed(&self, seed: u64, opts: &RunOpts) -> (Value, Outcome) {
        let case = E2Case {
            seed,
            opts: Some(opts.clone()),
            limit: None,
            zero: vec![],
        };
        let out = self.0.run(&case, opts);
        (serde_json::to_value(&case).unwrap(), out)
    }

    fn run_case(&self, case: &Value) -> Outcome {
        match parse_case(case) {
            Some(c) => {
                let opts = c.opts.clone().unwrap_or(RunOpts {
                    tier: Tier::Quick,
                    avoid: vec![],
                });
                self.0.run(&c, &opts)
            }
            None => {
                let mut o = Outcome::default();
                o.violate(Violation::new("harness-panic", "bad-case", "unparsable E2 case".into()));
                o
            }
        }
    }

    fn shrink(&self, case: &Value) -> Vec<Value> {
        match parse_case(case) {
            Some(c) => sim::shrink_e2(&c, None)
                .into_iter()
                .map(|c| serde_json::to_value(&c).unwrap())
                .collect(),
            None => vec![],
        }
    }

    fn process_isolated(&self) -> bool {
        true
    }

    fn chunk(&self, _tier: &Tier) -> u64 {
        self.0.chunk()
    }

    fn budget(&self, tier: &Tier) -> (u64, u64) {
        self.0.budget(tier)
    }

    fn avoid_switches(&self) -> Vec<&'static str> {
        self.0.avoid_switches()
    }

    fn describe(&self) -> ScenarioInfo {
        self.0.describe()
    }
}

/// Context handed to a script when the simulation has started.
#[derive(Clone)]
pub struct Ctx {
    pub machine: Arc<Machine>,
    pub shutdown: Shutdown,
    pub machine_id: usize,
}

type ScriptFn = Box<dyn FnOnce(Ctx) -> BoxFut + Send>;
type PreFn = Box<dyn FnOnce(&Ctx) + Send>;

/// A harness application: runs `pre` before the start barrier (listen calls),
/// waits on the barrier as the `start` contract demands, then runs the script
/// as a deferrable task. Every `demux` on it is recorded. The const parameter
/// gives distinct applications on one machine distinct `TypeId`s.
pub struct App<const N: usize> {
    pub machine_id: usize,
    pre: Mutex<Option<PreFn>>,
    script: Mutex<Option<ScriptFn>>,
    /// virtual milliseconds to sleep before waiting on the barrier
    pub slow_init_ms: u64,
}

impl<const N: usize> App<N> {
    pub fn new(machine_id: usize) -> Self {
        Self {
            machine_id,
            pre: Mutex::new(None),
            script: Mutex::new(None),
            slow_init_ms: 0,
        }
    }

    pub fn pre(self, f: impl FnOnce(&Ctx) + Send + 'static) -> Self {
        *self.pre.lock().unwrap() = Some(Box::new(f));
        self
    }

    pub fn script<F>(self, f: impl FnOnce(Ctx) -> F + Send + 'static) -> Self
    where
        F: Future<Output = ()> + Send + 'static,
    {
        *self.script.lock().unwrap() = Some(Box::new(move |ctx| Box::pin(f(ctx)) as BoxFut));
        self
    }

    pub fn slow(mut self, ms: u64) -> Self {
        self.slow_init_ms = ms;
        self
    }
}

#[async_trait::async_trait]
impl<const N: usize> Protocol for App<N> {
    async fn start(
        &self,
        shutdown: Shutdown,
        initialized: Arc<Barrier>,
        machine: Arc<Machine>,
    ) -> Result<(), StartError> {
        let ctx = Ctx {
            machine,
            shutdown,
            machine_id: self.machine_id,
        };
        let pre = self.pre.lock().unwrap().take();
        if let Some(pre) = pre {
            pre(&ctx);
        }
        if self.slow_init_ms > 0 {
            tokio::time::sleep(std::time::Duration::from_millis(self.slow_init_ms)).await;
        }
        let ev = sim::next_event();
        sim::with_state(|s| s.last_init_event = s.last_init_event.max(ev));
        initialized.wait().await;
        let script = self.script.lock().unwrap().take();
        if let Some(script) = script {
            elvis_core::verif::tokio::spawn(script(ctx));
        }
        Ok(())
    }

    fn demux(
        &self,
        message: Message,
        _caller: Arc<dyn Session>,
        control: Control,
        _machine: Arc<Machine>,
    ) -> Result<(), DemuxError> {
        let event = sim::next_event();
        let rx = Rx {
            event,
            time_ms: sim::now_ms(),
            machine: self.machine_id,
            app: N,
            payload: message.to_vec(),
            pci: control.get::<pci::DemuxInfo>().copied(),
            ipv4: control.get::<Ipv4Header>().copied(),
            udp: control.get::<UdpHeader>().copied(),
            endpoints: control.get::<Endpoints>().copied(),
        };
        sim::note_trace(3, (self.machine_id as u64) << 8 | N as u64, rx.payload.len() as u64);
        sim::with_state(|s| {
            s.first_demux_event.get_or_insert(event);
            s.rx.push(rx)
        });
        Ok(())
    }
}

/// Draws the scheduler knobs of a run (deferral probability and burst) from
/// the decision stream and installs them.
pub fn draw_scheduler_knobs() {
    let pm = *[0u64, 0, 50, 150, 300, 500]
        .get(sim::choose(6) as usize)
        .unwrap();
    let burst = 1 + sim::choose(8) as u32;
    sim::with_state(|s| {
        s.defer_pm = pm;
        s.max_burst = burst;
    });
}

/// A payload that identifies itself: 8 bytes of id, then filler derived from it.
pub fn marked_payload(id: u64, len: usize) -> Vec<u8> {
    let mut v = Vec::with_capacity(len);
    let idb = id.to_be_bytes();
    for i in 0..len {
        if i < 8 {
            v.push(idb[i]);
        } else {
            v.push((id as u8).wrapping_mul(31).wrapping_add(i as u8));
        }
    }
    v
}

pub fn payload_id(p: &[u8]) -> Option<u64> {
    if p.len() >= 8 {
        Some(u64::from_be_bytes(p[..8].try_into().unwrap()))
    } else {
        None
    }
}

/// Standard way to end a scenario: runs the machines with a virtual timeout.
pub async fn run_machines(machines: Vec<Arc<Machine>>, timeout_ms: u64) -> elvis_core::ExitStatus {
    elvis_core::run_internet_with_timeout(&machines, std::time::Duration::from_millis(timeout_ms)).await
}

pub fn default_cfg() -> SimConfig {
    SimConfig::default()
}

pub fn finish(state: &SimState, out: &mut Outcome) {
    sim::finish(state, out)
}

/// One-line description of an IPv4 frame (debug aid).
pub fn describe_ipv4_frame(b: &[u8]) -> String {
    if b.len() < 20 {
        return format!("short frame {} bytes", b.len());
    }
    let proto = b[9];
    let src = &b[12..16];
    let dst = &b[16..20];
    let ttl = b[8];
    if proto == 6 && b.len() >= 40 {
        let t = &b[20..];
        let seq = u32::from_be_bytes(t[4..8].try_into().unwrap());
        let ack = u32::from_be_bytes(t[8..12].try_into().unwrap());
        let flags = t[13];
        let wnd = u16::from_be_bytes(t[14..16].try_into().unwrap());
        let mut f = String::new();
        for (bit, name) in [(0x02, "S"), (0x10, "A"), (0x01, "F"), (0x04, "R"), (0x08, "P")] {
            if flags & bit != 0 {
                f.push_str(name);
            }
        }
        format!("{}.{}->{}.{} tcp {}>{} [{f}] seq={seq} ack={ack} wnd={wnd} len={} ttl={ttl}", src[2], src[3], dst[2], dst[3],
            u16::from_be_bytes(t[0..2].try_into().unwrap()), u16::from_be_bytes(t[2..4].try_into().unwrap()), b.len() - 40)
    } else if proto == 17 && b.len() >= 28 {
        let t = &b[20..];
        format!("{}.{}->{}.{} udp {}>{} len={} ttl={ttl}", src[2], src[3], dst[2], dst[3],
            u16::from_be_bytes(t[0..2].try_into().unwrap()), u16::from_be_bytes(t[2..4].try_into().unwrap()), b.len() - 28)
    } else {
        format!("{}.{}->{}.{} proto {proto} len={} ttl={ttl}", src[2], src[3], dst[2], dst[3], b.len() - 20)
    }
}
