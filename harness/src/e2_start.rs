//! C13: a simulation starts behind a barrier and ends with the requested status.

use crate::common::*;
use crate::e2::*;
use crate::sim::{self, E2Case};
use elvis::applications::{Capture, SendMessage};
use elvis_core::protocols::ipv4::{Ipv4, Ipv4Address, Recipient};
use elvis_core::protocols::dhcp::dhcp_client::DhcpClient;
use elvis_core::protocols::{Arp, DnsClient, Endpoint, Pci, SocketAPI, Tcp, Udp};
use elvis_core::{ExitStatus, IpTable, Machine, Message, Network};
use std::sync::{Arc, Mutex};
use std::time::Duration;

pub struct Start;

#[derive(Clone, Debug)]
struct Req {
    event: u64,
    time_ms: u64,
    status: u32,
}

#[derive(Clone, Debug, Default)]
struct Plan {
    timeout_ms: Option<u64>,
    n_machines: usize,
    capture_expected: bool,
    never_returning_start: bool,
    apps: usize,
    same_instant_requests: usize,
}

impl E2Run for Start {
    fn id(&self) -> &'static str {
        "C13"
    }

    fn run(&self, case: &E2Case, opts: &RunOpts) -> Outcome {
        let reqs: Arc<Mutex<Vec<Req>>> = Arc::new(Mutex::new(vec![]));
        let plan_cell: Arc<Mutex<Plan>> = Arc::new(Mutex::new(Plan::default()));
        let (r2, p2) = (reqs.clone(), plan_cell.clone());
        let avoid_many = opts.avoids("no_more_than_16_concurrent_shutdowns");
        let avoid_forward_arp = opts.avoids("no_forward_with_arp");
        let (ret, state) = sim::run_sim(case, default_cfg(), move || async move {
            draw_scheduler_knobs();
            let net = Network::basic();
            sim::network_index(Arc::as_ptr(&net) as usize);
            let n_machines = sim::choose(9) as usize;
            let timeout_ms = match sim::choose(4) {
                0 => None,
                1 => Some(200 + sim::choose(2000)),
                2 => Some(3000),
                _ => Some(10_000),
            };
            // a Capture/SendMessage pair that ends the run on its own
            let with_capture = n_machines >= 2 && sim::chance(1, 4);
            let never_returning = sim::chance(1, 6) && timeout_ms.is_some();
            let storm = !with_capture && n_machines >= 5 && !avoid_many && sim::chance(1, 4);
            let mut plan = Plan {
                timeout_ms,
                n_machines,
                capture_expected: with_capture,
                never_returning_start: never_returning,
                ..Default::default()
            };
            let mut machines: Vec<Arc<Machine>> = vec![];
            let mut status_counter = 1u32;
            let storm_time = 50 + sim::choose(500);
            let flavours: Vec<u64> = (0..n_machines)
                .map(|m| if with_capture && m < 2 { 3 * sim::choose(2) } else { sim::choose(if avoid_forward_arp { 7 } else { 8 }) })
                .collect();
            let forwarders: Vec<usize> = (0..n_machines).filter(|m| flavours[*m] == 7).collect();
            for m in 0..n_machines {
                let ip = [10, 0, 0, m as u8 + 1];
                let table: IpTable<Recipient> = [("0.0.0.0/0", Recipient::new(0, None))].into_iter().collect();
                let mut machine = Machine::new().with(Pci::new([net.clone()])).with(Ipv4::new(table)).with(Udp::new());
                let flavour = flavours[m];
                match flavour {
                    0 => machine = machine.with(Tcp::new()),
                    1 => machine = machine.with(Arp::new()),
                    2 => machine = machine.with(Tcp::new()).with(SocketAPI::new(Some(Ipv4Address::new(ip)))),
                    // built-in protocols that talk as soon as the simulation has started
                    4 => machine = machine.with(DhcpClient::new(Ipv4Address::new([10, 0, 0, 200]))),
                    5 => machine = machine.with(DnsClient::new()).with(SocketAPI::new(Some(Ipv4Address::new(ip)))),
                    6 => machine = machine.with(elvis::applications::DhcpServer::new(
                        Ipv4Address::new(ip),
                        elvis::ip_generator::IpRange::new(Ipv4Address::new([10, 0, 9, 1]), Ipv4Address::new([10, 0, 9, 50])),
                    )),
                    // an application that opens its session during initialisation, on a machine with ARP
                    7 => {
                        machine = machine.with(Arp::new()).with(elvis::applications::Forward::new(elvis_core::protocols::Endpoints::new(
                            Endpoint::new(Ipv4Address::new(ip), 7000),
                            // the next forwarder in the ring (or itself): a machine with ARP that claims its address
                            Endpoint::new(
                                Ipv4Address::new([10, 0, 0, 1 + forwarders[(forwarders.iter().position(|x| *x == m).unwrap() + 1) % forwarders.len()] as u8]),
                                7000,
                            ),
                        )))
                    }
                    _ => {}
                }
                if with_capture && m == 0 {
                    machine = machine.with(Capture::new(Endpoint::new(Ipv4Address::new(ip), 700), 1));
                }
                if with_capture && m == 1 {
                    machine = machine.with(
                        SendMessage::new(vec![Message::new("ping")], Endpoint::new(Ipv4Address::new([10, 0, 0, 1]), 700))
                            .local_ip(Ipv4Address::new(ip)),
                    );
                }
                // harness applications: slow initialisation, shutdown requests, probes that send a frame at once
                let mut mk = |n_app: usize| -> (u64, Option<(u64, u32)>, bool, bool) {
                    let slow = match sim::choose(6) {
                        0 | 1 => sim::choose(400),
                        2 => 1000 + sim::choose(2000),
                        _ => 0,
                    };
                    let request = if with_capture {
                        None
                    } else if storm {
                        // a quarter of the requesters use the plain call, which asks for the normal status
                        let s = if sim::chance(1, 4) { 0 } else { status_counter };
                        status_counter += 1;
                        Some((storm_time, s))
                    } else if sim::chance(1, 3) {
                        let s = if sim::chance(1, 4) { 0 } else { status_counter };
                        status_counter += 1;
                        let t = match sim::choose(4) {
                            0 => 0,
                            1 => 100,
                            2 => sim::choose(3000),
                            _ => 100 + sim::choose(20),
                        };
                        Some((t, s))
                    } else {
                        None
                    };
                    let sends_at_once = sim::chance(1, 2);
                    let hang = never_returning && m == 0 && n_app == 0;
                    (slow, request, sends_at_once, hang)
                };
                let a = [mk(0), mk(1), mk(2), mk(3)];
                plan.apps += 4;
                macro_rules! app {
                    ($n:literal) => {{
                        let (slow, request, sends, hang) = a[$n];
                        let reqs = r2.clone();
                        App::<$n>::new(m).slow(slow).script(move |ctx: Ctx| async move {
                            if sends {
                                // the earliest possible frame after the barrier
                                let s = ctx.machine.protocol::<Pci>().unwrap().open(0);
                                let _ = s.send_pci(Message::new(vec![0xAB; 12]), None, std::any::TypeId::of::<App<$n>>());
                            }
                            if let Some((t, status)) = request {
                                if t > 0 {
                                    tokio::time::sleep(Duration::from_millis(t)).await;
                                }
                                let event = sim::next_event();
                                reqs.lock().unwrap().push(Req {
                                    event,
                                    time_ms: sim::now_ms(),
                                    status,
                                });
                                sim::note_trace(8, status as u64, event);
                                if status == 0 {
                                    ctx.shutdown.shut_down();
                                } else {
                                    ctx.shutdown.shut_down_with_status(ExitStatus::Status(status));
                                }
                            }
                            if hang {
                                // holds its Shutdown handle for ever
                                let _keep = ctx.shutdown.clone();
                                std::future::pending::<()>().await;
                            }
                        })
                    }};
                }
                machine = machine.with(app!(0)).with(app!(1)).with(app!(2)).with(app!(3));
                machines.push(machine.arc());
            }
            *p2.lock().unwrap() = plan;
            let t0 = sim::now_ms();
            // both entry points take a timeout: run_internet_with_timeout, and run_internet itself
            // (the one the description generator calls)
            let direct = sim::chance(1, 3);
            let status = match timeout_ms {
                Some(t) if direct => {
                    sim::count("probe_run_internet_called_directly_with_a_timeout");
                    match tokio::time::timeout(Duration::from_secs(3600), elvis_core::run_internet(&machines, Some(Duration::from_millis(t)))).await {
                        Ok(s) => s,
                        Err(_) => ExitStatus::Status(u32::MAX),
                    }
                }
                Some(t) => elvis_core::run_internet_with_timeout(&machines, Duration::from_millis(t)).await,
                None => {
                    // without a timeout the run must still end: give it a generous virtual bound
                    match tokio::time::timeout(Duration::from_secs(3600), elvis_core::run_internet(&machines, None)).await {
                        Ok(s) => s,
                        Err(_) => ExitStatus::Status(u32::MAX),
                    }
                }
            };
            (status, sim::now_ms() - t0)
        });
        let mut out = Outcome::default();
        finish(&state, &mut out);
        let plan = plan_cell.lock().unwrap().clone();
        let mut reqs = reqs.lock().unwrap().clone();
        reqs.sort_by_key(|r| r.event);
        let Some((status, elapsed)) = ret else {
            out.violate(Violation::new("harness-panic", "no-result", "the run task did not complete".into()));
            return out;
        };
        // (1) the barrier: nothing on the wire and no demux before the last initialisation finished
        if state.last_init_event > 0 {
            if let Some(f) = state.first_frame_event {
                if f < state.last_init_event {
                    out.violate(Violation::new(
                        "barrier",
                        "frame-before-initialisation-finished",
                        format!("a frame was on the wire at event {f}, the last protocol finished initialising at event {}", state.last_init_event),
                    ));
                }
                out.count("probe_frames_after_barrier");
            }
            if let Some(d) = state.first_demux_event {
                if d < state.last_init_event {
                    out.violate(Violation::new(
                        "barrier",
                        "demux-before-initialisation-finished",
                        format!("an application received something at event {d}, the last protocol finished initialising at event {}", state.last_init_event),
                    ));
                }
            }
        }
        // (2) the status
        let timeout = plan.timeout_ms;
        let first = reqs.first().cloned();
        let same_instant = first.as_ref().map(|f| reqs.iter().filter(|r| r.time_ms == f.time_ms).count()).unwrap_or(0);
        if same_instant > 16 {
            out.count("probe_more_than_16_requests_at_once");
        }
        if reqs.len() > 1 {
            out.count("probe_competing_shutdown_requests");
        }
        // status code 0 in the request log stands for the plain shut_down() call
        let asked = |code: u32| if code == 0 { ExitStatus::Exited } else { ExitStatus::Status(code) };
        if reqs.iter().any(|r| r.status == 0) && reqs.iter().any(|r| r.status != 0) {
            out.count("probe_plain_and_status_requests_compete");
        }
        let expected: Vec<ExitStatus> = if plan.capture_expected {
            // initialisation may take up to 3 s of simulated time
            if timeout.map(|t| t <= 3100).unwrap_or(false) {
                vec![ExitStatus::Exited, ExitStatus::TimedOut]
            } else {
                vec![ExitStatus::Exited]
            }
        } else {
            match (&first, timeout) {
                (Some(f), Some(t)) if f.time_ms < t => vec![asked(f.status)],
                (Some(f), Some(t)) if f.time_ms == t => vec![asked(f.status), ExitStatus::TimedOut],
                (Some(_), Some(_)) => vec![ExitStatus::TimedOut],
                (Some(f), None) => vec![asked(f.status)],
                // nobody asks: the timed-out status, or the normal one when
                // every holder of a shutdown handle has gone away before
                (None, Some(_)) => vec![ExitStatus::TimedOut, ExitStatus::Exited],
                // no request and no timeout: the statement promises nothing
                // (a protocol may keep its shutdown handle for ever)
                (None, None) => vec![ExitStatus::Exited, ExitStatus::Status(u32::MAX)],
            }
        };
        if !expected.contains(&status) {
            let suffix = if first.is_some() && (matches!(status, ExitStatus::Status(_)) || (status == ExitStatus::Exited && reqs.iter().any(|r| r.status == 0))) {
                if same_instant > 16 {
                    "not-the-first-request|more-than-16-at-once"
                } else {
                    "not-the-first-request"
                }
            } else if status == ExitStatus::TimedOut {
                "timed-out-instead"
            } else {
                "other"
            };
            out.violate(Violation::new(
                "exit-status",
                suffix,
                format!(
                    "the run returned {status:?}; expected {expected:?} (first request: {first:?}, {} requests, {same_instant} at that instant, timeout {timeout:?}, {} machines)",
                    reqs.len(),
                    plan.n_machines
                ),
            ));
        }
        // (3) a run with a timeout returns no later than one second after it
        if let Some(t) = timeout {
            if elapsed > t + 1000 {
                out.violate(Violation::new(
                    "timeout-bound",
                    "",
                    format!("a run with a timeout of {t} ms returned after {elapsed} ms of simulated time"),
                ));
            }
        }
        if plan.never_returning_start {
            out.count("probe_start_that_never_returns");
        }
        if plan.n_machines == 0 {
            out.count("probe_zero_machines");
        }
        out.add("shutdown_requests", reqs.len() as u64);
        out
    }

    fn budget(&self, tier: &Tier) -> (u64, u64) {
        match tier {
            Tier::Quick => (150_000, 50),
            Tier::Thorough => (10_000_000, 1200),
        }
    }

    fn avoid_switches(&self) -> Vec<&'static str> {
        vec!["no_more_than_16_concurrent_shutdowns", "no_forward_with_arp"]
    }

    fn describe(&self) -> ScenarioInfo {
        ScenarioInfo {
            engine: "E2 netsim".into(),
            level: "exploration".into(),
            rule: "one run = 0..8 machines mixing built-in protocols (Pci, Ipv4, Udp, Tcp, Arp, SocketAPI, optionally a SendMessage/Capture pair) with four harness applications each that are slow to initialise, put a frame on the wire as early as the contract allows, request shutdown early / late / at the same instant with distinct statuses, or never return from start; run_internet or run_internet_with_timeout under a seeded task scheduler on virtual time; distinct = hash of decisions, frames, requests".into(),
            real_components: vec!["run_internet, run_internet_with_timeout, Machine::start, Shutdown, Barrier usage of every built-in protocol, Capture, SendMessage".into()],
            stub_components: vec!["harness applications following the Protocol::start contract".into()],
            fault_kinds: vec!["task-order perturbation of initialisation (poll deferral, JoinSet tasks included)".into(), "slow initialisation".into(), "concurrent shutdown requests".into(), "start that never returns".into()],
            assumptions: vec!["'first' request is decided by the simulator's global event counter".into()],
        }
    }
}
