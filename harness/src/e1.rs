//! Engine E1 `tcbsim`: discrete-event simulation of two real `Tcb`s with a
//! simulated network (reorder / delay / drop / duplicate), virtual clock,
//! applications, and the session glue of `tcp_session.rs` / `tcp.rs` as a stub.
//! Serves C01 (stream), C03 (state machine / close), C12 (ISN independence,
//! differential) and C17 (Byzantine peer).

use crate::common::*;
use crate::rng::{fnv, fnv_u64, Rng, FNV_INIT};
use crate::worker::catching;
use elvis_core::protocols::ipv4::Ipv4Address;
use elvis_core::protocols::tcp::verif_export::*;
use elvis_core::protocols::tcp::TcpHeader;
use elvis_core::protocols::{Endpoint, Endpoints};
use elvis_core::Message;
use serde::{Deserialize, Serialize};
use serde_json::Value;
use std::time::Duration;

#[derive(Clone, Copy, PartialEq, Eq, Debug)]
pub enum Kind {
    C01,
    C03,
    C12,
    C17,
}

pub struct E1 {
    kind: Kind,
}

pub static C01: E1 = E1 { kind: Kind::C01 };
pub static C03: E1 = E1 { kind: Kind::C03 };
pub static C12: E1 = E1 { kind: Kind::C12 };
pub static C17: E1 = E1 { kind: Kind::C17 };

#[derive(Serialize, Deserialize, Clone, Debug, PartialEq)]
#[serde(tag = "op")]
pub enum Op {
    /// application write of `n` bytes on side `s`
    W { s: u8, n: u32 },
    /// application read on side `s`
    R { s: u8 },
    /// advance the clock of side `s` by `ms`
    T { s: u8, ms: u32 },
    /// deliver in-flight segment `i` (mod queue length) travelling to side `to`
    D { to: u8, i: u32 },
    /// drop it
    X { to: u8, i: u32 },
    /// duplicate it
    U { to: u8, i: u32 },
    /// application close on side `s`
    C { s: u8 },
    /// an old duplicate SYN of an earlier incarnation of the peer of `to`,
    /// sequence number = peer ISN + off
    O { to: u8, off: i32 },
    /// forged segment from the peer address, delivered to `to`; seq/ack are
    /// relative to the victim's variables at injection time
    F {
        to: u8,
        flags: u8,
        sb: u8,
        so: i32,
        ab: u8,
        ao: i32,
        wnd: u16,
        len: u16,
    },
}

#[derive(Serialize, Deserialize, Clone, Debug)]
pub struct Case {
    pub kind: String,
    pub isn: [u32; 2],
    /// second ISN pair for the differential run (C12)
    #[serde(default)]
    pub isn2: Option<[u32; 2]>,
    pub mtu: u16,
    /// side 0 always opens actively; side 1 too when true (simultaneous open)
    pub simultaneous: bool,
    /// eager[s]: the application reads after every event (as the shipped session does)
    pub eager: [bool; 2],
    /// run the fault-free drain phase and the liveness oracles
    pub drain: bool,
    /// drain phase closes these sides if the application has not (C03)
    pub close_in_drain: [bool; 2],
    /// the drain advances time like the shipped session does: 5 ms at a
    /// time, with deliveries in between (instead of one step per RTO)
    #[serde(default)]
    pub fine_ticks: bool,
    pub ops: Vec<Op>,
}

const ADDR: [[u8; 4]; 2] = [[10, 0, 0, 1], [10, 0, 0, 2]];
const PORT: [u16; 2] = [0xA000, 0xB000];
const RTO_MS: u32 = 100;
const MSL2_MS: u32 = 2000;
const INCARNATION_STEP: u32 = 250_007;

fn byte_at(dir: usize, off: u64) -> u8 {
    ((off.wrapping_mul(0x9E37_79B9_7F4A_7C15) >> 56) as u8) ^ (dir as u8).wrapping_mul(0x5a)
}

fn payload(dir: usize, off: u64, n: usize) -> Vec<u8> {
    (0..n as u64).map(|k| byte_at(dir, off + k)).collect()
}

fn endpoints(s: usize) -> Endpoints {
    Endpoints::new(
        Endpoint::new(Ipv4Address::new(ADDR[s]), PORT[s]),
        Endpoint::new(Ipv4Address::new(ADDR[1 - s]), PORT[1 - s]),
    )
}

fn synchronized(s: State) -> bool {
    !matches!(s, State::SynSent | State::SynReceived)
}

fn fin_seen(s: State) -> bool {
    matches!(
        s,
        State::CloseWait | State::LastAck | State::Closing | State::TimeWait
    )
}

fn state_code(s: Option<State>) -> u8 {
    match s {
        None => 0,
        Some(State::SynSent) => 1,
        Some(State::SynReceived) => 2,
        Some(State::Established) => 3,
        Some(State::FinWait1) => 4,
        Some(State::FinWait2) => 5,
        Some(State::CloseWait) => 6,
        Some(State::Closing) => 7,
        Some(State::LastAck) => 8,
        Some(State::TimeWait) => 9,
    }
}

/// Receive-event successors in the RFC 9293 figure 5 diagram (plus the
/// SYN-RECEIVED -> CLOSE-WAIT step of 3.10.7.4 "eighth"). 0 = TCB deleted.
fn rcv_edges(from: u8) -> &'static [u8] {
    match from {
        1 => &[2, 3, 0],
        2 => &[3, 6, 0],
        3 => &[6, 0],
        4 => &[5, 7, 9, 0],
        5 => &[9, 0],
        6 => &[0],
        7 => &[9, 0],
        8 => &[0],
        9 => &[0],
        _ => &[],
    }
}

fn rcv_reachable(from: u8, to: u8) -> bool {
    if from == to {
        return true;
    }
    let mut seen = [false; 10];
    let mut stack = vec![from];
    while let Some(x) = stack.pop() {
        for &y in rcv_edges(x) {
            if y == to {
                return true;
            }
            if !seen[y as usize] {
                seen[y as usize] = true;
                stack.push(y);
            }
        }
    }
    false
}

struct Side {
    tcb: Option<Tcb>,
    listening: bool,
    active: bool,
    eager: bool,
    iss: u32,
    incarnation: u32,
    /// bytes accepted by send() in this incarnation
    sent: u64,
    /// bytes taken by receive()
    recvd: u64,
    closed: bool,
    sent_at_close: u64,
    unsent_at_close: usize,
    had_tcb: bool,
    released: bool,
    /// the application data checks no longer apply (a forged segment that may
    /// legitimately alter the stream was injected towards this side)
    tainted: bool,
    fin_observed: bool,
    /// right edge of the send window, relative to iss: max(ack+wnd) over
    /// segments received with an acceptable ack
    /// acknowledgment numbers (relative to iss) of every segment that arrived
    acks_seen: Vec<u64>,
    max_wnd: u64,
    edge_unchecked: bool,
    rst_emitted: u64,
}

#[derive(Clone, Debug, PartialEq, Eq)]
pub struct TraceEv {
    pub kind: u8,
    pub side: u8,
    pub a: u64,
    pub b: u64,
    pub c: u64,
    pub d: u64,
}

struct World<'a> {
    case: &'a Case,
    kind: Kind,
    isn: [u32; 2],
    sides: [Side; 2],
    /// net[to]: segments travelling to side `to`
    net: [Vec<Segment>; 2],
    out: Outcome,
    trace: Vec<TraceEv>,
    dead: bool,
    legit_only: bool,
    old_syn_used: bool,
    states_seen: Vec<u64>,
    shape: u64,
    now_ms: u64,
    verbose: bool,
}

enum CallKind {
    Seg,
    Close,
    Tick,
    Other,
}

impl<'a> World<'a> {
    fn new(case: &'a Case, kind: Kind, isn: [u32; 2]) -> Self {
        let mk = |s: usize| Side {
            tcb: None,
            listening: false,
            active: s == 0 || case.simultaneous,
            eager: case.eager[s],
            iss: isn[s],
            incarnation: 0,
            sent: 0,
            recvd: 0,
            closed: false,
            sent_at_close: 0,
            unsent_at_close: 0,
            had_tcb: false,
            released: false,
            tainted: false,
            fin_observed: false,
            acks_seen: vec![],
            max_wnd: 0,
            edge_unchecked: false,
            rst_emitted: 0,
        };
        let mut w = World {
            case,
            kind,
            isn,
            sides: [mk(0), mk(1)],
            net: [vec![], vec![]],
            out: Outcome::default(),
            trace: vec![],
            dead: false,
            legit_only: true,
            old_syn_used: false,
            states_seen: vec![],
            shape: FNV_INIT,
            now_ms: 0,
            verbose: std::env::var("VERIF_TRACE").is_ok(),
        };
        for s in 0..2 {
            if w.sides[s].active {
                let mtu = case.mtu;
                let iss = isn[s];
                match catching(|| Tcb::open(endpoints(s), iss, mtu)) {
                    Ok(tcb) => {
                        w.sides[s].tcb = Some(tcb);
                        w.sides[s].had_tcb = true;
                    }
                    Err(p) => w.panic(p, "open"),
                }
            } else {
                w.sides[s].listening = true;
            }
        }
        for s in 0..2 {
            w.flush(s);
        }
        w
    }

    fn panic(&mut self, p: PanicInfo, during: &str) {
        self.dead = true;
        let oracle = if is_harness_file(&p.file) {
            "harness-panic"
        } else {
            "panic"
        };
        self.out.violate(Violation::new(
            oracle,
            &panic_class(&p),
            format!(
                "Tcb call `{during}` panicked at {}:{}: {}",
                p.file, p.line, p.msg
            ),
        ));
    }

    fn violate(&mut self, oracle: &str, suffix: &str, detail: String) {
        if self.verbose {
            eprintln!("!!!!!! VIOLATION {oracle}|{suffix}: {detail}");
        }
        self.out.violate(Violation::new(oracle, suffix, detail));
    }

    fn status(&self, s: usize) -> Option<State> {
        self.sides[s].tcb.as_ref().map(|t| t.status())
    }

    fn snap(&self, s: usize) -> Option<TcbSnapshot> {
        self.sides[s].tcb.as_ref().map(|t| t.verif_snapshot())
    }

    /// Wraps one Tcb call: catches panics, runs the transition monitor.
    fn call<R>(
        &mut self,
        s: usize,
        ck: CallKind,
        name: &str,
        f: impl FnOnce(&mut Tcb) -> R,
    ) -> Option<R> {
        if self.dead {
            return None;
        }
        let before = state_code(self.status(s));
        let mut tcb = self.sides[s].tcb.take()?;
        let r = catching(|| {
            let r = f(&mut tcb);
            (r, tcb)
        });
        match r {
            Ok((r, tcb)) => {
                self.sides[s].tcb = Some(tcb);
                let after = state_code(self.status(s));
                self.monitor(s, ck, name, before, after, false);
                Some(r)
            }
            Err(p) => {
                self.panic(p, name);
                None
            }
        }
    }

    fn monitor(&mut self, s: usize, ck: CallKind, name: &str, before: u8, after: u8, deleted: bool) {
        let after = if deleted { 0 } else { after };
        if before != after {
            self.trace.push(TraceEv {
                kind: 3,
                side: s as u8,
                a: before as u64,
                b: after as u64,
                c: 0,
                d: 0,
            });
        }
        let ok = match ck {
            // a close the application has already issued may take effect
            // inside segments() once the queued text has been segmentized
            CallKind::Other => {
                before == after
                    || (self.sides[s].closed
                        && name == "segments"
                        && matches!((before, after), (2, 4) | (3, 4) | (6, 8)))
            }
            CallKind::Close => {
                before == after || matches!((before, after), (2, 4) | (3, 4) | (6, 8))
            }
            CallKind::Tick => before == after || (before == 9 && after == 0),
            CallKind::Seg => rcv_reachable(before, after),
        };
        if !ok {
            self.violate(
                "transition",
                &format!("{name}:{before}->{after}"),
                format!(
                    "side {s}: call `{name}` moved the connection from state code {before} to {after}, which is not a path of RFC 9293 figure 5 for that event"
                ),
            );
        }
    }

    /// The session glue after an event: put `segments()` on the wire, hand
    /// received text to the application when it reads eagerly.
    fn flush(&mut self, s: usize) {
        if self.dead || self.sides[s].tcb.is_none() {
            return;
        }
        let pre = self.snap(s);
        let segs = self.call(s, CallKind::Other, "segments", |t| t.segments());
        let Some(segs) = segs else { return };
        for seg in segs {
            // new data (beyond the SND.NXT the call started from) stays inside the send window
            // the TCB itself holds; what that window is, is the business of check_window_variables
            if let Some(pre) = &pre {
                let len = seg.text.len() as u32;
                let end = seg.header.seq.wrapping_add(len);
                let is_new = len > 0 && (end.wrapping_sub(pre.snd_nxt) as i32) > 0;
                let edge = pre.snd_una.wrapping_add(pre.snd_wnd as u32);
                let synced = matches!(pre.state, State::Established | State::CloseWait | State::FinWait1 | State::FinWait2 | State::Closing | State::LastAck);
                if is_new && synced {
                    self.out.count("probe_new_data_checked_against_the_send_window");
                    if (end.wrapping_sub(edge) as i32) > 0 {
                        self.violate(
                            "window-edge",
                            "beyond-snd-una-plus-snd-wnd",
                            format!(
                                "side {s} emitted new data ending at iss+{} while SND.UNA+SND.WND was iss+{} (SND.WND {})",
                                end.wrapping_sub(pre.iss),
                                edge.wrapping_sub(pre.iss),
                                pre.snd_wnd
                            ),
                        );
                    }
                }
            }
            self.emitted(s, &seg, false);
            self.net[1 - s].push(seg);
        }
        if self.sides[s].eager {
            self.read(s);
        }
    }

    fn emitted(&mut self, s: usize, seg: &Segment, closed_rst_literal_seq: bool) {
        let h = &seg.header;
        let flags: u8 = h.ctl.into();
        let iss = self.sides[s].iss;
        if self.verbose {
            eprintln!(
                "      side {s} emits {:?} seq=iss+{} ack={} wnd={} len={}",
                h.ctl,
                h.seq.wrapping_sub(iss),
                if h.ctl.ack() { format!("peer_iss+{}", h.ack.wrapping_sub(self.sides[1 - s].iss)) } else { "-".into() },
                h.wnd,
                seg.text.len()
            );
        }
        let peer_iss = self.sides[1 - s].iss;
        let mut ph = FNV_INIT;
        for b in seg.text.iter() {
            fnv(&mut ph, &[b]);
        }
        let seq_n = if closed_rst_literal_seq {
            h.seq as u64 | (1 << 40)
        } else {
            h.seq.wrapping_sub(iss) as u64
        };
        let ack_n = if h.ctl.ack() {
            h.ack.wrapping_sub(peer_iss) as u64
        } else {
            h.ack as u64 | (1 << 40)
        };
        self.trace.push(TraceEv {
            kind: 1,
            side: s as u8,
            a: flags as u64 | ((h.wnd as u64) << 8) | ((seg.text.len() as u64) << 24),
            b: seq_n,
            c: ack_n,
            d: ph,
        });
        if h.ctl.rst() {
            self.sides[s].rst_emitted += 1;
        }
        // C17 oracle 2: data never beyond the right edge ever advertised
        if !seg.text.is_empty()
            && self.kind == Kind::C17
            && self.sides[s].tcb.is_some()
            && !self.sides[s].edge_unchecked
        {
            let rel_end = h.seq.wrapping_sub(iss) as u64 + seg.text.len() as u64;
            let nxt = self
                .snap(s)
                .map(|x| x.snd_nxt.wrapping_sub(iss) as u64)
                .unwrap_or(0);
            let a = self.sides[s]
                .acks_seen
                .iter()
                .copied()
                .filter(|a| *a <= nxt)
                .max()
                .unwrap_or(1);
            let edge = a + self.sides[s].max_wnd;
            if rel_end > edge && rel_end < (1 << 31) {
                self.violate(
                    "window-edge",
                    "",
                    format!(
                        "side {s} emitted data ending at iss+{rel_end} but the right edge of the window advertised to it never exceeded iss+{edge}"
                    ),
                );
            }
        }
    }

    fn read(&mut self, s: usize) {
        let msg = self.call(s, CallKind::Other, "receive", |t| t.receive());
        let Some(msg) = msg else { return };
        if msg.is_empty() {
            return;
        }
        let dir = 1 - s; // stream written by the peer
        let n = msg.len() as u64;
        let base = self.sides[s].recvd;
        self.sides[s].recvd += n;
        self.trace.push(TraceEv {
            kind: 2,
            side: s as u8,
            a: base,
            b: n,
            c: 0,
            d: 0,
        });
        if self.sides[s].tainted {
            return;
        }
        let limit = self.sides[dir].sent;
        if base + n > limit {
            self.violate(
                "prefix",
                "more-than-sent",
                format!(
                    "side {s} received {} bytes in total but its peer has only submitted {limit}",
                    base + n
                ),
            );
            return;
        }
        for (k, b) in msg.iter().enumerate() {
            if b != byte_at(dir, base + k as u64) {
                self.violate(
                    "prefix",
                    "wrong-byte",
                    format!(
                        "side {s}: byte at stream offset {} is {:#04x}, the peer submitted {:#04x} there (received data is not a prefix of submitted data)",
                        base + k as u64,
                        b,
                        byte_at(dir, base + k as u64)
                    ),
                );
                return;
            }
        }
    }

    /// Updates the window-edge bookkeeping of side `to` for an arriving segment.
    fn note_arrival(&mut self, to: usize, h: &TcpHeader) {
        let Some(sn) = self.snap(to) else {
            return;
        };
        // Envelope of every right edge RFC 9293 allows: some acknowledgment
        // number that arrived (it may be processed later, from the
        // out-of-order queue, and RFC 9293 keeps SND.WND when an old segment
        // advances SND.UNA) plus the largest window ever advertised.
        let iss = sn.iss;
        let side = &mut self.sides[to];
        let a = if h.ctl.ack() {
            h.ack.wrapping_sub(iss) as u64
        } else {
            1
        };
        if !side.acks_seen.contains(&a) {
            if side.acks_seen.len() < 512 {
                side.acks_seen.push(a);
            } else {
                side.edge_unchecked = true;
            }
        }
        side.max_wnd = side.max_wnd.max(h.wnd as u64);
    }

    /// RFC 9293 3.10.7.4 on SND.WND / SND.WL1 / SND.WL2, checked on the TCB's own variables
    /// for every segment that was processed on its own (nothing waiting in or taken from the
    /// reordering queue): the three variables change together and only to the values of the
    /// segment just processed; the acknowledgment that completes the handshake sets them;
    /// an in-order segment that advances SND.UNA and is not older than (WL1, WL2) sets them.
    fn check_window_variables(&mut self, to: usize, pre: &TcbSnapshot, post: &TcbSnapshot, h: &TcpHeader) {
        if pre.incoming_segments != 0 || post.incoming_segments != 0 || self.sides[to].tcb.is_none() {
            return;
        }
        let le = |a: u32, b: u32| (b.wrapping_sub(a) as i32) >= 0;
        let lt = |a: u32, b: u32| (b.wrapping_sub(a) as i32) > 0;
        let was = (pre.snd_wnd, pre.snd_wl1, pre.snd_wl2);
        let now = (post.snd_wnd, post.snd_wl1, post.snd_wl2);
        let seg = (h.wnd, h.seq, h.ack);
        let synced = |s: State| matches!(s, State::Established | State::FinWait1 | State::FinWait2 | State::CloseWait | State::Closing | State::LastAck | State::TimeWait);
        if now != was && now != seg && synced(post.state) {
            self.violate(
                "send-window",
                "changed-to-something-else",
                format!("side {to} ({:?} -> {:?}): SND.WND/WL1/WL2 went from {was:?} to {now:?} while processing a segment with wnd/seq/ack {seg:?}", pre.state, post.state),
            );
            return;
        }
        let plain_ack = h.ctl.ack() && !h.ctl.rst() && !h.ctl.syn();
        // (an unacceptable acknowledgment in SYN-RECEIVED is answered with a reset, but this
        // stack goes on to process the segment's FIN; that is not a completed handshake)
        if pre.state == State::SynReceived && synced(post.state) && plain_ack && lt(pre.snd_una, h.ack) && le(h.ack, pre.snd_nxt) {
            self.out.count("probe_handshake_completed_by_a_directly_processed_ack");
            if now != seg {
                self.violate(
                    "send-window",
                    "not-set-when-the-handshake-completed",
                    format!("side {to}: the acknowledgment that completed the handshake advertised wnd/seq/ack {seg:?}, the connection entered {:?} with SND.WND/WL1/WL2 {now:?}", post.state),
                );
            }
            return;
        }
        let data_states = matches!(pre.state, State::Established | State::FinWait1 | State::FinWait2 | State::CloseWait);
        if data_states
            && synced(post.state)
            && plain_ack
            && h.seq == pre.rcv_nxt
            && pre.rcv_wnd > 0
            && lt(pre.snd_una, h.ack)
            && le(h.ack, pre.snd_nxt)
            && (lt(pre.snd_wl1, h.seq) || (pre.snd_wl1 == h.seq && le(pre.snd_wl2, h.ack)))
        {
            self.out.count("probe_window_update_due");
            if now != seg {
                self.violate(
                    "send-window",
                    "update-skipped",
                    format!("side {to} ({:?}): an in-order segment with wnd/seq/ack {seg:?} advanced SND.UNA and is newer than WL1/WL2 {:?}, but SND.WND/WL1/WL2 are {now:?}", pre.state, (pre.snd_wl1, pre.snd_wl2)),
                );
            }
        }
    }

    /// A segment reaches side `to` (the demux stub of `tcp.rs`).
    fn arrive(&mut self, to: usize, seg: Segment) {
        if self.dead {
            return;
        }
        if self.verbose {
            let h = &seg.header;
            eprintln!(
                "    -> side {to} [{:?}] gets {:?} seq={} ack={} wnd={} len={}",
                self.status(to),
                h.ctl,
                h.seq,
                h.ack,
                h.wnd,
                seg.text.len()
            );
        }
        if self.sides[to].tcb.is_some() {
            self.note_arrival(to, &seg.header);
            let before = state_code(self.status(to));
            let pre = self.snap(to);
            let hdr = seg.header;
            let r = self.call(to, CallKind::Seg, "segment_arrives", |t| {
                t.segment_arrives(seg)
            });
            if let (Some(pre), Some(post)) = (pre, self.snap(to)) {
                self.check_window_variables(to, &pre, &post, &hdr);
            }
            match r {
                Some(SegmentArrivesResult::Close) => {
                    // the session task ends without another segments() call;
                    // the application collects what is still buffered
                    self.read(to);
                    self.sides[to].tcb = None;
                    self.sides[to].released = true;
                    self.monitor(to, CallKind::Seg, "segment_arrives", before, 0, true);
                    if self.legit_only && !matches!(before, 7 | 8 | 9) {
                        self.violate(
                            "reset",
                            &format!("from-{before}"),
                            format!(
                                "side {to}: a connection in state code {before} was torn down by an arriving segment although only legitimate traffic was exchanged"
                            ),
                        );
                    }
                    if self.sides[to].closed || !self.sides[to].active {
                        self.sides[to].listening = false;
                    }
                }
                Some(SegmentArrivesResult::Ok) => self.flush(to),
                None => {}
            }
        } else if self.sides[to].listening {
            let local = Ipv4Address::new(ADDR[to]);
            let remote = Ipv4Address::new(ADDR[1 - to]);
            let inc = self.sides[to].incarnation;
            let iss = self.isn[to].wrapping_add(inc.wrapping_mul(INCARNATION_STEP));
            let mtu = self.case.mtu;
            let hdr = seg.header;
            let r = catching(|| segment_arrives_listen(seg, local, remote, iss, mtu));
            match r {
                Ok(Some(ListenResult::Tcb(tcb))) => {
                    let side = &mut self.sides[to];
                    side.tcb = Some(tcb);
                    side.iss = iss;
                    side.incarnation += 1;
                    side.had_tcb = true;
                    side.released = false;
                    side.fin_observed = false;
                    side.acks_seen = vec![1];
                    side.max_wnd = hdr.wnd as u64;
                    side.edge_unchecked = false;
                    if side.incarnation > 1 {
                        // a new connection: a new pair of streams
                        side.sent = 0;
                        side.closed = false;
                        let other = &self.sides[1 - to];
                        if other.recvd != 0 && !other.tainted {
                            let n = other.recvd;
                            self.violate(
                                "prefix",
                                "data-from-dead-incarnation",
                                format!("side {} holds {n} bytes from a connection incarnation that was reset", 1 - to),
                            );
                        }
                    }
                    self.trace.push(TraceEv {
                        kind: 3,
                        side: to as u8,
                        a: 0,
                        b: 2,
                        c: 0,
                        d: 0,
                    });
                    self.flush(to);
                }
                Ok(Some(ListenResult::Response(h))) => {
                    let s = Segment::new(h, Message::default());
                    self.emitted(to, &s, false);
                    self.net[1 - to].push(s);
                }
                Ok(None) => {}
                Err(p) => self.panic(p, "segment_arrives_listen"),
            }
        } else {
            let local = Ipv4Address::new(ADDR[to]);
            let remote = Ipv4Address::new(ADDR[1 - to]);
            let len = seg.text.len() as u32;
            let hdr = seg.header;
            let r = catching(|| segment_arrives_closed(hdr, len, local, remote));
            match r {
                Ok(Some(h)) => {
                    let s = Segment::new(h, Message::default());
                    self.emitted(to, &s, !hdr.ctl.ack());
                    if self.kind == Kind::C12 && !hdr.ctl.ack() {
                        // SEQ=0 is a literal: what it does to a live TCB
                        // legitimately depends on the ISNs. Lost in both runs.
                        self.out.count("literal_rst_lost_in_both_runs");
                    } else {
                        self.net[1 - to].push(s);
                    }
                }
                Ok(None) => {}
                Err(p) => self.panic(p, "segment_arrives_closed"),
            }
        }
    }

    fn write(&mut self, s: usize, n: u32) -> bool {
        let Some(st) = self.status(s) else {
            return false;
        };
        if !matches!(
            st,
            State::SynSent | State::SynReceived | State::Established
        ) {
            return false;
        }
        let off = self.sides[s].sent;
        let data = payload(s, off, n as usize);
        if st != State::Established {
            self.out.count("probe_write_before_established");
            if !self.sides[s].active {
                self.out.count("probe_passive_write_in_syn_received");
            }
        }
        if self
            .call(s, CallKind::Other, "send", |t| t.send(Message::new(data)))
            .is_none()
        {
            return false;
        }
        self.sides[s].sent += n as u64;
        self.out.add("bytes_written", n as u64);
        self.flush(s);
        true
    }

    fn close(&mut self, s: usize) -> bool {
        if self.sides[s].tcb.is_none() || self.sides[s].closed {
            return false;
        }
        let unsent = self.snap(s).map(|x| x.unsent_text).unwrap_or(0);
        let r = self.call(s, CallKind::Close, "close", |t| t.close());
        match r {
            Some(CloseResult::Ok) => {
                self.sides[s].closed = true;
                self.sides[s].sent_at_close = self.sides[s].sent;
                self.sides[s].unsent_at_close = unsent;
                if unsent > 0 {
                    self.out.count("probe_close_with_unsegmentized_text");
                }
                self.out.count("closes");
                self.flush(s);
                true
            }
            _ => false,
        }
    }

    fn tick(&mut self, s: usize, ms: u32) -> bool {
        if self.sides[s].tcb.is_none() {
            return false;
        }
        let before = state_code(self.status(s));
        let r = self.call(s, CallKind::Tick, "advance_time", |t| {
            t.advance_time(Duration::from_millis(ms as u64))
        });
        match r {
            Some(AdvanceTimeResult::CloseConnection) => {
                self.read(s);
                self.sides[s].tcb = None;
                self.sides[s].released = true;
                self.sides[s].listening = false;
                self.monitor(s, CallKind::Tick, "advance_time", before, 0, true);
                self.out.count("time_wait_expired");
            }
            Some(AdvanceTimeResult::Ignore) => self.flush(s),
            None => {}
        }
        true
    }

    fn forge(&mut self, to: usize, flags: u8, sb: u8, so: i32, ab: u8, ao: i32, wnd: u16, len: u16) {
        self.legit_only = false;
        let sn = self.snap(to);
        let (seq, ack) = match &sn {
            Some(x) => {
                let sbase = if sb == 0 {
                    x.rcv_nxt
                } else {
                    x.rcv_nxt.wrapping_add(x.rcv_wnd as u32)
                };
                let abase = if ab == 0 { x.snd_una } else { x.snd_nxt };
                (sbase.wrapping_add(so as u32), abase.wrapping_add(ao as u32))
            }
            None => (so as u32, ao as u32),
        };
        let hdr = TcpHeader {
            src_port: PORT[1 - to],
            dst_port: PORT[to],
            seq,
            ack,
            data_offset: 5,
            ctl: Control::from(flags & 0x3f),
            wnd,
            urg: 0,
            checksum: 0,
        };
        let text = Message::new(vec![0xEEu8; len as usize]);
        let seg = Segment::new(hdr, text);
        self.out.count("forged_segments");
        // classify: must a conforming receiver treat it as unacceptable?
        let mut must_ignore = false;
        if let Some(x) = &sn {
            let seg_len = len as u64 + hdr.ctl.syn() as u64 + hdr.ctl.fin() as u64;
            if x.state == State::SynSent {
                must_ignore = !hdr.ctl.syn() && !hdr.ctl.rst();
            } else {
                // positions relative to rcv.nxt - 1, as signed distances
                let lo = seq.wrapping_sub(x.rcv_nxt.wrapping_sub(1)) as i32 as i64;
                let hi = lo + (seg_len.max(1) as i64 - 1);
                let win = x.rcv_wnd as i64 + 1; // [rcv.nxt-1, rcv.nxt+wnd)
                must_ignore = hi < 0 || lo >= win;
            }
            if must_ignore && x.incoming_segments != 0 {
                // segments queued earlier (out of order, or handed over by
                // LISTEN) may become processable within the same call; their
                // effects are not the forged segment's
                must_ignore = false;
                self.out.count("forged_unacceptable_not_asserted_heap_pending");
            }
        }
        if must_ignore {
            self.out.count("forged_unacceptable");
            let before = sn.unwrap();
            let recvd_before = self.sides[to].recvd;
            self.arrive(to, seg);
            if self.dead {
                return;
            }
            let after = self.snap(to);
            let unchanged = match after {
                Some(a) => {
                    a.state == before.state
                        && a.rcv_nxt == before.rcv_nxt
                        && (a.incoming_text + (self.sides[to].recvd - recvd_before) as usize)
                            == before.incoming_text
                }
                None => false,
            };
            if let Some(a) = after {
                if a.incoming_segments > before.incoming_segments {
                    // The stack keeps segments above the window in its
                    // reordering queue instead of discarding them. What they
                    // do once the window reaches them equals a later arrival
                    // of the same segment, which is an acceptable one.
                    self.out.count("forged_unacceptable_retained_in_reorder_queue");
                    self.sides[to].tainted = true;
                    self.sides[1 - to].tainted = true;
                }
            }
            if !unchanged {
                self.violate(
                    "unacceptable-segment-had-effect",
                    &format!("state-{}", state_code(Some(before.state))),
                    format!(
                        "side {to} in state {:?}: forged segment flags={:#04x} seq=rcv.nxt{:+} len={len} is unacceptable (outside the window, or no SYN/RST in SYN-SENT) but changed the connection: before {:?} after {:?}",
                        before.state,
                        flags,
                        seq.wrapping_sub(before.rcv_nxt) as i32,
                        before,
                        after
                    ),
                );
            }
        } else {
            self.out.count("forged_maybe_acceptable");
            self.sides[to].tainted = true;
            self.sides[1 - to].tainted = true;
            self.arrive(to, seg);
        }
    }

    fn old_syn(&mut self, to: usize, off: i32) {
        self.legit_only = false;
        self.old_syn_used = true;
        let seq = self.isn[1 - to].wrapping_add(off as u32);
        let hdr = TcpHeader {
            src_port: PORT[1 - to],
            dst_port: PORT[to],
            seq,
            ack: 0,
            data_offset: 5,
            ctl: Control::new(false, false, false, false, true, false),
            wnd: u16::MAX,
            urg: 0,
            checksum: 0,
        };
        self.out.count("old_duplicate_syns");
        self.net[to].push(Segment::new(hdr, Message::default()));
    }

    /// Applies one operation; returns whether it was applicable.
    fn apply(&mut self, op: &Op) -> bool {
        if self.dead {
            return false;
        }
        if self.verbose {
            eprintln!(
                "step {} {:?}   [A={:?} B={:?} net->A={} net->B={}]",
                self.out.steps,
                op,
                self.status(0),
                self.status(1),
                self.net[0].len(),
                self.net[1].len()
            );
        }
        let code: u8;
        let ok = match *op {
            Op::W { s, n } => {
                code = 1;
                self.write(s as usize & 1, n)
            }
            Op::R { s } => {
                code = 2;
                let s = s as usize & 1;
                if self.sides[s].tcb.is_some() {
                    self.read(s);
                    true
                } else {
                    false
                }
            }
            Op::T { s, ms } => {
                code = 3;
                self.now_ms += ms as u64;
                self.tick(s as usize & 1, ms)
            }
            Op::D { to, i } => {
                code = 4;
                let to = to as usize & 1;
                if self.net[to].is_empty() {
                    false
                } else {
                    let idx = i as usize % self.net[to].len();
                    if idx != 0 {
                        self.out.count("fault_reordered");
                        self.out.nontrivial = true;
                    }
                    let seg = self.net[to].remove(idx);
                    self.out.count("delivered");
                    self.arrive(to, seg);
                    true
                }
            }
            Op::X { to, i } => {
                code = 5;
                let to = to as usize & 1;
                if self.net[to].is_empty() {
                    false
                } else {
                    let idx = i as usize % self.net[to].len();
                    self.net[to].remove(idx);
                    self.out.count("fault_dropped");
                    self.out.nontrivial = true;
                    true
                }
            }
            Op::U { to, i } => {
                code = 6;
                let to = to as usize & 1;
                if self.net[to].is_empty() || self.net[to].len() > 200 {
                    false
                } else {
                    let idx = i as usize % self.net[to].len();
                    let seg = self.net[to][idx].clone();
                    self.net[to].push(seg);
                    self.out.count("fault_duplicated");
                    self.out.nontrivial = true;
                    true
                }
            }
            Op::C { s } => {
                code = 7;
                self.close(s as usize & 1)
            }
            Op::O { to, off } => {
                code = 8;
                self.out.nontrivial = true;
                self.old_syn(to as usize & 1, off);
                true
            }
            Op::F {
                to,
                flags,
                sb,
                so,
                ab,
                ao,
                wnd,
                len,
            } => {
                code = 9;
                self.out.nontrivial = true;
                self.forge(to as usize & 1, flags, sb, so, ab, ao, wnd, len);
                true
            }
        };
        self.out.steps += 1;
        fnv(&mut self.shape, &[code, ok as u8]);
        self.trace.push(TraceEv {
            kind: 0,
            side: 0,
            a: code as u64,
            b: ok as u64,
            c: 0,
            d: 0,
        });
        if !self.dead {
            self.invariants();
        }
        ok
    }

    /// Cross-endpoint invariants checked after every step.
    fn invariants(&mut self) {
        let (Some(a), Some(b)) = (self.snap(0), self.snap(1)) else {
            self.note_state();
            return;
        };
        self.note_state();
        let clean = !self.sides[0].tainted && !self.sides[1].tainted;
        // the two TCBs belong to the same connection?
        let same = a.irs == b.iss && b.irs == a.iss;
        if clean && same && synchronized(a.state) && synchronized(b.state) {
            for (x, y, xi, yi) in [(&a, &b, 0usize, 1usize), (&b, &a, 1, 0)] {
                // x expects no more than y has sent; y believes acknowledged no more than x received
                let exp = x.rcv_nxt.wrapping_sub(y.iss);
                let sent = y.snd_nxt.wrapping_sub(y.iss);
                let una = y.snd_una.wrapping_sub(y.iss);
                if exp > sent {
                    self.violate(
                        "sync",
                        "rcv-nxt-beyond-peer-snd-nxt",
                        format!("side {xi} expects sequence iss+{exp} but side {yi} has only sent up to iss+{sent}"),
                    );
                }
                if una > exp {
                    self.violate(
                        "sync",
                        "snd-una-beyond-peer-rcv-nxt",
                        format!("side {yi} considers iss+{una} acknowledged but side {xi} has only received up to iss+{exp}"),
                    );
                }
            }
        }
        // C03 (iii): the end of the stream is seen only after all data
        for s in 0..2 {
            let Some(sn) = (if s == 0 { Some(a) } else { Some(b) }) else {
                continue;
            };
            if fin_seen(sn.state) && !self.sides[s].fin_observed {
                self.sides[s].fin_observed = true;
                if !clean || !same {
                    continue;
                }
                let peer = &self.sides[1 - s];
                if !peer.closed {
                    self.violate(
                        "phantom-fin",
                        "",
                        format!("side {s} entered {:?} although its peer never called close", sn.state),
                    );
                    continue;
                }
                let got = self.sides[s].recvd + sn.incoming_text as u64;
                if got != peer.sent_at_close {
                    let suffix = if peer.unsent_at_close > 0 {
                        "close-with-unsegmentized-text"
                    } else {
                        "all-text-was-segmentized"
                    };
                    self.violate(
                        "fin-before-data",
                        suffix,
                        format!(
                            "side {s} saw the end of the stream ({:?}) after {got} bytes, but its peer had submitted {} bytes before close ({} of them were still unsegmentized when close was called)",
                            sn.state, peer.sent_at_close, peer.unsent_at_close
                        ),
                    );
                }
            }
        }
    }

    fn note_state(&mut self) {
        let inflight = (self.net[0].len() + self.net[1].len()).min(7) as u64;
        let bucket = |n: usize| -> u64 {
            match n {
                0 => 0,
                1..=1000 => 1,
                1001..=65535 => 2,
                _ => 3,
            }
        };
        let qa = self.snap(0).map(|x| bucket(x.unsent_text + x.retransmit_bytes)).unwrap_or(4);
        let qb = self.snap(1).map(|x| bucket(x.unsent_text + x.retransmit_bytes)).unwrap_or(4);
        let h = state_code(self.status(0)) as u64
            | (state_code(self.status(1)) as u64) << 4
            | inflight << 8
            | qa << 12
            | qb << 16;
        if !self.states_seen.contains(&h) && self.states_seen.len() < 128 {
            self.states_seen.push(h);
        }
    }

    fn quiescent(&self) -> bool {
        if !self.net[0].is_empty() || !self.net[1].is_empty() {
            return false;
        }
        for s in 0..2 {
            if let Some(x) = self.snap(s) {
                if x.unsent_text != 0 || x.retransmit_segments != 0 {
                    return false;
                }
            }
        }
        true
    }

    /// Delivers everything in flight, fault free, oldest first, until the
    /// network is empty (bounded).
    fn deliver_all(&mut self) {
        let mss = (self.case.mtu as u64).saturating_sub(50).max(1);
        let pending: u64 = (0..2)
            .map(|s| {
                self.snap(s)
                    .map(|x| (x.unsent_text + x.retransmit_bytes) as u64)
                    .unwrap_or(0)
            })
            .sum();
        let total = 100_000
            + 50 * (self.net[0].len() + self.net[1].len()) as u64
            + 20 * (pending / mss);
        let mut budget = total;
        while !self.dead && budget > 0 {
            let to = if !self.net[0].is_empty() && (self.net[1].is_empty() || budget % 2 == 0) {
                0
            } else if !self.net[1].is_empty() {
                1
            } else {
                break;
            };
            let seg = self.net[to].remove(0);
            self.arrive(to, seg);
            self.invariants();
            budget -= 1;
        }
        if budget == 0 {
            self.violate(
                "liveness",
                "segment-storm",
                format!("{total} fault-free deliveries did not empty the network"),
            );
        }
    }

    /// The fault-free phase at the end of a run with the liveness oracles.
    fn drain(&mut self) {
        if self.dead {
            return;
        }
        if self.kind == Kind::C17 {
            // a Byzantine peer may legitimately reset or stall the
            // connection: no liveness is promised. Keep the endpoints busy
            // for a few more rounds for the crash and window oracles only.
            for _ in 0..4 {
                let mut budget = 3000;
                while budget > 0 && !self.dead {
                    let to = if !self.net[0].is_empty() {
                        0
                    } else if !self.net[1].is_empty() {
                        1
                    } else {
                        break;
                    };
                    let seg = self.net[to].remove(0);
                    self.arrive(to, seg);
                    budget -= 1;
                }
                for s in 0..2 {
                    self.tick(s, RTO_MS + 1);
                }
            }
            return;
        }
        for s in 0..2 {
            self.sides[s].eager = true;
            if self.sides[s].tcb.is_some() {
                self.read(s);
            }
        }
        let clean = !self.sides[0].tainted && !self.sides[1].tainted;
        let outstanding: u64 = (0..2)
            .map(|s| self.sides[s].sent.saturating_sub(self.sides[1 - s].recvd))
            .sum();
        let rounds = 6 + 2 * outstanding.div_ceil(65_535);
        self.out.add("drain_rounds_allowed", rounds);
        let closing_run = self.kind != Kind::C01
            && (self.sides[0].closed
                || self.sides[1].closed
                || self.case.close_in_drain[0]
                || self.case.close_in_drain[1]);
        let mut used = 0;
        for _ in 0..rounds {
            self.deliver_all();
            if self.dead {
                return;
            }
            if self.quiescent() && self.data_complete() {
                break;
            }
            used += 1;
            if self.case.fine_ticks {
                // one RTO round in 5 ms steps; whatever an endpoint emits in
                // between (acknowledgments of the peer's retransmissions)
                // travels at once
                for _ in 0..21 {
                    for s in 0..2 {
                        self.tick(s, 5);
                    }
                    self.now_ms += 5;
                    self.deliver_all();
                    if self.dead {
                        return;
                    }
                }
            } else {
                for s in 0..2 {
                    self.now_ms += (RTO_MS + 1) as u64 / 2;
                    self.tick(s, RTO_MS + 1);
                }
            }
        }
        self.out.add("drain_rounds_used", used);
        if self.case.fine_ticks {
            self.out.count("probe_fine_tick_drain");
        }
        if self.dead {
            return;
        }
        self.deliver_all();
        if clean && !self.old_syn_used {
            // every submitted byte delivered exactly once, all acknowledged
            for s in 0..2 {
                let want = self.sides[1 - s].sent;
                let got = self.sides[s].recvd;
                // data submitted to a connection that was closed with
                // unsegmentized text is judged by the fin-before-data oracle
                if got != want && !(self.sides[1 - s].closed && self.sides[1 - s].unsent_at_close > 0) {
                    self.violate(
                        "liveness",
                        "data-not-delivered",
                        format!(
                            "after {rounds} fault-free retransmission rounds side {s} has {got} of the {want} bytes its peer submitted"
                        ),
                    );
                }
            }
            if !self.quiescent() {
                let a = self.snap(0);
                let b = self.snap(1);
                self.violate(
                    "liveness",
                    "not-quiescent",
                    format!("after {rounds} fault-free rounds data is still unsent or unacknowledged: A={a:?} B={b:?}"),
                );
            }
        }
        if self.dead || !self.out.violations.is_empty() {
            return;
        }
        if !closing_run {
            // silence: three further RTOs produce nothing
            if clean && !self.old_syn_used {
                for _ in 0..3 {
                    for s in 0..2 {
                        self.tick(s, RTO_MS + 1);
                    }
                    if !self.net[0].is_empty() || !self.net[1].is_empty() {
                        self.violate(
                            "liveness",
                            "not-silent",
                            "an endpoint transmitted again after everything had been delivered and acknowledged".into(),
                        );
                        break;
                    }
                }
                // when both are synchronised and idle, each side's next
                // expected sequence number equals what the peer has sent
                if let (Some(a), Some(b)) = (self.snap(0), self.snap(1)) {
                    if synchronized(a.state) && synchronized(b.state) && a.irs == b.iss && b.irs == a.iss {
                        if a.rcv_nxt != b.snd_nxt || b.rcv_nxt != a.snd_nxt {
                            self.violate(
                                "sync",
                                "idle-mismatch",
                                format!("idle synchronised endpoints disagree: A={a:?} B={b:?}"),
                            );
                        }
                    }
                }
            }
            return;
        }
        // C03 (iv): closes issued, fair network => both endpoints released
        let rst_before: u64 = self.sides[0].rst_emitted + self.sides[1].rst_emitted;
        for round in 0..(rounds + 8) {
            for s in 0..2 {
                let st = self.status(s);
                let want_close = self.case.close_in_drain[s]
                    || (st == Some(State::CloseWait))
                    || (round > 2 && self.sides[1 - s].closed);
                if want_close && !self.sides[s].closed && st.is_some() {
                    // close only once everything written has been segmentized,
                    // unless the case asks for the racy variant
                    let unsent = self.snap(s).map(|x| x.unsent_text).unwrap_or(0);
                    if unsent == 0 || self.case.close_in_drain[s] {
                        self.close(s);
                    }
                }
            }
            self.deliver_all();
            if self.dead {
                return;
            }
            if self.sides[0].tcb.is_none() && self.sides[1].tcb.is_none() {
                break;
            }
            for s in 0..2 {
                self.tick(s, RTO_MS + 1);
            }
        }
        // 2*MSL wait
        for _ in 0..3 {
            for s in 0..2 {
                self.tick(s, MSL2_MS / 2 + 1);
            }
            self.deliver_all();
        }
        if self.dead {
            return;
        }
        if clean && !self.old_syn_used {
            for s in 0..2 {
                if let Some(st) = self.status(s) {
                    if self.sides[0].closed && self.sides[1].closed {
                        self.violate(
                            "liveness",
                            &format!("not-released-{}", state_code(Some(st))),
                            format!("both applications closed and the network was fair, but side {s} lingers in {st:?}"),
                        );
                    }
                }
            }
            let rst_after: u64 = self.sides[0].rst_emitted + self.sides[1].rst_emitted;
            if rst_after > rst_before && self.legit_only {
                self.violate(
                    "reset",
                    "rst-during-close",
                    "an endpoint emitted RST while the connection was being closed over a fair network".into(),
                );
            }
        }
    }

    fn data_complete(&self) -> bool {
        (0..2).all(|s| self.sides[s].recvd == self.sides[1 - s].sent)
    }

    fn finish(mut self) -> (Outcome, Vec<TraceEv>) {
        let mut h = FNV_INIT;
        for e in &self.trace {
            fnv(&mut h, &[e.kind, e.side]);
            fnv_u64(&mut h, e.a);
            fnv_u64(&mut h, e.b);
            fnv_u64(&mut h, e.c);
            fnv_u64(&mut h, e.d);
        }
        self.out.trace_hash = h;
        self.out.shape_hash = self.shape;
        self.out.sim_ms = self.now_ms;
        self.out.states = std::mem::take(&mut self.states_seen);
        if self.sides[0].had_tcb && self.sides[1].had_tcb {
            self.out.count("probe_both_sides_had_tcb");
        }
        for s in 0..2 {
            if self.sides[s].released {
                self.out.count("probe_tcb_released");
            }
        }
        (self.out, self.trace)
    }
}

pub fn execute(case: &Case, kind: Kind, isn: [u32; 2]) -> (Outcome, Vec<TraceEv>) {
    let mut w = World::new(case, kind, isn);
    for op in &case.ops {
        if w.dead {
            break;
        }
        w.apply(op);
    }
    if case.drain && !w.dead && w.out.violations.is_empty() {
        w.drain();
    }
    // sequence-space wrap probes
    for s in 0..2 {
        let total = w.sides[s].sent + 2;
        if (isn[s] as u64) + total > u32::MAX as u64 {
            w.out.count("probe_sequence_space_wrapped");
        }
        if (isn[s] as u64) < (1 << 31) && (isn[s] as u64) + total >= (1 << 31) {
            w.out.count("probe_crossed_2_31");
        }
    }
    w.finish()
}

pub fn run_case_kind(case: &Case, kind: Kind) -> Outcome {
    let (mut out, trace) = execute(case, kind, case.isn);
    if kind == Kind::C12 {
        if let Some(isn2) = case.isn2 {
            let (out2, trace2) = execute(case, kind, isn2);
            out.add("differential_runs", 1);
            // a violation in either run is a violation; beyond that the runs must be the same run
            for v in out2.violations {
                out.violate(v);
            }
            if out.violations.is_empty() && trace != trace2 {
                let idx = trace
                    .iter()
                    .zip(trace2.iter())
                    .position(|(a, b)| a != b)
                    .unwrap_or(trace.len().min(trace2.len()));
                let kindname = |e: Option<&TraceEv>| match e.map(|e| e.kind) {
                    Some(0) => "op-applicability",
                    Some(1) => "segment",
                    Some(2) => "delivery",
                    Some(3) => "state-change",
                    _ => "length",
                };
                out.violate(Violation::new(
                    "isn-dependence",
                    kindname(trace.get(idx)),
                    format!(
                        "runs with ISNs {:?} and {:?} differ at trace event {idx}: {:?} vs {:?}",
                        case.isn,
                        isn2,
                        trace.get(idx),
                        trace2.get(idx)
                    ),
                ));
            }
            for (k, v) in out2.counters {
                if k.starts_with("probe_sequence") || k.starts_with("probe_crossed") {
                    *out.counters.entry(k).or_insert(0) += v;
                }
            }
        }
    }
    out
}

// ---------------------------------------------------------------------------
// generation

struct Knobs {
    steps: u32,
    loss: u64,
    dup: u64,
    reorder: u64,
    size_class: u8,
    write_w: u64,
    tick_w: u64,
    close_w: u64,
    forge_w: u64,
    oldsyn_w: u64,
    byte_cap: u64,
}

fn pick_isn(rng: &mut Rng) -> u32 {
    match rng.below(10) {
        0 | 1 => (0u32).wrapping_sub(rng.below(70_000) as u32),
        2 => rng.below(70_000) as u32,
        3 | 4 => (1u32 << 31).wrapping_sub(rng.below(70_000) as u32),
        5 => (1u32 << 31).wrapping_add(rng.below(70_000) as u32),
        _ => rng.next_u64() as u32,
    }
}

fn pick_mtu(rng: &mut Rng) -> u16 {
    match rng.below(10) {
        0 => 100,
        1 => rng.range(100, 200) as u16,
        2 | 3 => rng.range(200, 1500) as u16,
        4 | 5 | 6 => 1500,
        7 => 9000,
        8 => 65535,
        _ => rng.range(100, 65535) as u16,
    }
}

fn pick_size(rng: &mut Rng, class: u8, mss: u32) -> u32 {
    match class {
        0 => *rng.pick(&[1, 2, 7, 100, mss.saturating_sub(1).max(1), mss, mss + 1, 3 * mss + 5]).min(&4000),
        1 => *rng.pick(&[1, mss, mss + 1, 5 * mss, 20_000, 65_535, 65_536, 70_000]),
        _ => *rng.pick(&[mss, 65_535, 65_536, 100_000, 200_000]),
    }
}

pub fn generate(seed: u64, kind: Kind, opts: &RunOpts) -> Case {
    let mut rng = Rng::new(seed);
    let thorough = opts.tier == Tier::Thorough;
    let gen_kind = if kind == Kind::C12 {
        if rng.chance(1, 3) {
            Kind::C03
        } else {
            Kind::C01
        }
    } else {
        kind
    };
    let size_class = match rng.below(100) {
        0..=79 => 0,
        80..=94 => 1,
        _ => 2,
    };
    let kn = Knobs {
        steps: match rng.below(4) {
            0 => rng.range(5, 30) as u32,
            1 => rng.range(30, 120) as u32,
            _ => rng.range(60, if thorough { 600 } else { 400 }) as u32,
        },
        loss: *rng.pick(&[0, 0, 5, 10, 20, 40]),
        dup: *rng.pick(&[0, 0, 5, 10, 20]),
        reorder: *rng.pick(&[0, 10, 30, 60]),
        size_class,
        write_w: *rng.pick(&[2, 6, 12]),
        tick_w: *rng.pick(&[3, 8, 15]),
        close_w: if gen_kind == Kind::C03 || gen_kind == Kind::C17 {
            *rng.pick(&[0, 1, 2, 4])
        } else {
            0
        },
        forge_w: if gen_kind == Kind::C17 {
            *rng.pick(&[4, 10, 25])
        } else {
            0
        },
        oldsyn_w: if gen_kind == Kind::C03 && rng.chance(1, 4) {
            1
        } else {
            0
        },
        byte_cap: match size_class {
            0 => 60_000,
            1 => 400_000,
            _ => 1_000_000,
        },
    };
    let mtu = pick_mtu(&mut rng);
    let mss = (mtu - 50) as u32;
    let mut case = Case {
        kind: format!("{kind:?}"),
        isn: [pick_isn(&mut rng), pick_isn(&mut rng)],
        isn2: None,
        mtu,
        simultaneous: rng.chance(1, 10),
        eager: [!rng.chance(1, 4), !rng.chance(1, 4)],
        drain: true,
        close_in_drain: [false, false],
        fine_ticks: rng.chance(1, 2),
        ops: vec![],
    };
    if kind == Kind::C12 {
        case.isn2 = Some([pick_isn(&mut rng), pick_isn(&mut rng)]);
    }
    if gen_kind == Kind::C03 {
        case.close_in_drain = [rng.chance(1, 2), rng.chance(1, 4)];
    }
    // half of the Byzantine runs only inject segments a conforming receiver
    // must discard at once (below the window, or no SYN/RST in SYN-SENT), so
    // that nothing forged sits in the reordering queue and the "no effect"
    // oracle stays armed for the whole run
    let forge_strict = gen_kind == Kind::C17 && rng.chance(1, 2);
    let avoid_passive_early_write = opts.avoids("no_passive_write_before_established");
    let avoid_close_unsent = opts.avoids("no_close_with_unsent_text");
    let avoid_shrinking_window = opts.avoids("no_shrinking_window");
    let avoid_syn_text_in_syn_sent = opts.avoids("no_syn_with_text_in_syn_sent");
    if avoid_close_unsent {
        case.close_in_drain = [false, false];
    }

    // generate against a live world so that choices are made among enabled events
    let shadow = case.clone();
    let mut w = World::new(&shadow, gen_kind, shadow.isn);
    let mut written = [0u64; 2];
    let mut ops: Vec<Op> = vec![];
    for _ in 0..kn.steps {
        if w.dead {
            break;
        }
        let inflight = [w.net[0].len() as u64, w.net[1].len() as u64];
        let net_w = 10 * (inflight[0] + inflight[1]).min(6) + if inflight[0] + inflight[1] > 0 { 10 } else { 0 };
        let late_read_w = if !case.eager[0] || !case.eager[1] { 3 } else { 0 };
        let total = kn.write_w + kn.tick_w + kn.close_w + kn.forge_w + kn.oldsyn_w + net_w + late_read_w;
        let mut r = rng.below(total.max(1));
        let op = if r < net_w {
            let to = if inflight[0] == 0 {
                1
            } else if inflight[1] == 0 {
                0
            } else {
                rng.below(2) as u8
            };
            let i = if rng.below(100) < kn.reorder {
                rng.below(64) as u32
            } else {
                0
            };
            let f = rng.below(100);
            if f < kn.loss {
                Op::X { to, i }
            } else if f < kn.loss + kn.dup {
                Op::U { to, i }
            } else {
                Op::D { to, i }
            }
        } else {
            r -= net_w;
            if r < kn.write_w {
                let s = rng.below(2) as usize;
                let st = w.status(s);
                let n = pick_size(&mut rng, kn.size_class, mss);
                let passive_early = !w.sides[s].active && st != Some(State::Established);
                if written[s] + n as u64 > kn.byte_cap || (avoid_passive_early_write && passive_early) {
                    Op::T { s: s as u8, ms: 5 }
                } else {
                    written[s] += n as u64;
                    Op::W { s: s as u8, n }
                }
            } else {
                r -= kn.write_w;
                if r < kn.tick_w {
                    let ms = *rng.pick(&[1, 5, 5, 50, 99, 100, 101, 101, 150, 1999, 2000, 2001]);
                    Op::T {
                        s: rng.below(2) as u8,
                        ms,
                    }
                } else {
                    r -= kn.tick_w;
                    if r < kn.close_w {
                        let s = rng.below(2) as usize;
                        let unsent = w.snap(s).map(|x| x.unsent_text).unwrap_or(0);
                        if avoid_close_unsent && unsent > 0 {
                            Op::T { s: s as u8, ms: 5 }
                        } else {
                            Op::C { s: s as u8 }
                        }
                    } else {
                        r -= kn.close_w;
                        if r < kn.forge_w {
                            let to = rng.below(2) as u8;
                            let mut flags = match rng.below(4) {
                                0 => 0x10,                  // ACK
                                1 => *rng.pick(&[0x02, 0x12, 0x04, 0x14, 0x01, 0x11, 0x18, 0x00]),
                                _ => rng.below(64) as u8,
                            };
                            let near = [-70_000, -65_536, -1461, -2, -1, 0, 1, 2, 100, 1460, 65_534, 65_535, 65_536, 70_000];
                            let so = if rng.chance(1, 8) {
                                rng.next_u64() as i32
                            } else {
                                *rng.pick(&near)
                            };
                            let ao = if rng.chance(1, 8) {
                                rng.next_u64() as i32
                            } else {
                                *rng.pick(&[-70_000, -1000, -1, 0, 0, 1, 2, 1000, 70_000])
                            };
                            let mut wnd = *rng.pick(&[0u16, 0, 1, 2, 100, 1000, 65_535, 65_535]);
                            if rng.chance(1, 4) {
                                wnd = rng.below(65_536) as u16;
                            }
                            let mut len = *rng.pick(&[0u16, 0, 1, 10, 100]);
                            if rng.chance(1, 4) {
                                len = rng.below(mss.min(3000) as u64 + 1) as u16;
                            }
                            let victim = w.snap(to as usize);
                            let mut sb = rng.below(2) as u8;
                            let mut so = so;
                            if forge_strict {
                                match victim.map(|v| v.state) {
                                    Some(State::SynSent) => {
                                        flags &= !0x06; // neither SYN nor RST
                                    }
                                    _ => {
                                        // entirely below RCV.NXT - 1
                                        sb = 0;
                                        let seg_len = len as i32 + (flags & 0x02 != 0) as i32 + (flags & 0x01 != 0) as i32;
                                        so = -(seg_len.max(1) + 1 + rng.below(70_000) as i32);
                                    }
                                }
                            }
                            if avoid_shrinking_window {
                                wnd = 65_535;
                            }
                            if avoid_syn_text_in_syn_sent
                                && victim.map(|v| v.state == State::SynSent).unwrap_or(false)
                                && flags & 0x02 != 0
                            {
                                len = 0;
                                flags &= !0x01;
                            }
                            Op::F {
                                to,
                                flags,
                                sb,
                                so,
                                ab: rng.below(2) as u8,
                                ao,
                                wnd,
                                len,
                            }
                        } else {
                            r -= kn.forge_w;
                            if r < kn.oldsyn_w {
                                Op::O {
                                    to: 1,
                                    off: -(rng.range(1000, 1 << 28) as i32),
                                }
                            } else {
                                let s = if !case.eager[0] { 0 } else { 1 };
                                Op::R { s }
                            }
                        }
                    }
                }
            }
        };
        w.apply(&op);
        ops.push(op);
    }
    case.ops = ops;
    case
}

// ---------------------------------------------------------------------------
// shrinking

fn shrink_case(case: &Case) -> Vec<Case> {
    let mut out = vec![];
    let n = case.ops.len();
    // drop the tail, then chunks, then single ops
    let mut size = n / 2;
    while size >= 1 {
        let mut start = 0;
        while start < n {
            let end = (start + size).min(n);
            let mut c = case.clone();
            c.ops.drain(start..end);
            out.push(c);
            start += size;
        }
        if size == 1 {
            break;
        }
        size /= 2;
        if out.len() > 600 {
            break;
        }
    }
    // simplify ops: faults become plain deliveries, sizes shrink, index 0
    for (k, op) in case.ops.iter().enumerate() {
        let simpler: Option<Op> = match op {
            Op::X { to, .. } | Op::U { to, .. } => Some(Op::D { to: *to, i: 0 }),
            Op::D { to, i } if *i != 0 => Some(Op::D { to: *to, i: 0 }),
            Op::W { s, n } if *n > 1 => Some(Op::W { s: *s, n: n / 2 }),
            Op::T { s, ms } if *ms > 101 => Some(Op::T { s: *s, ms: 101 }),
            Op::F {
                to,
                flags,
                sb,
                so,
                ab,
                ao,
                wnd,
                len,
            } if *len > 1 => Some(Op::F {
                to: *to,
                flags: *flags,
                sb: *sb,
                so: *so,
                ab: *ab,
                ao: *ao,
                wnd: *wnd,
                len: len / 2,
            }),
            _ => None,
        };
        if let Some(s) = simpler {
            let mut c = case.clone();
            c.ops[k] = s;
            out.push(c);
        }
    }
    if case.simultaneous {
        let mut c = case.clone();
        c.simultaneous = false;
        out.push(c);
    }
    if case.eager != [true, true] {
        let mut c = case.clone();
        c.eager = [true, true];
        out.push(c);
    }
    if case.close_in_drain != [false, false] {
        let mut c = case.clone();
        c.close_in_drain = [false, false];
        out.push(c);
    }
    if case.mtu != 1500 {
        let mut c = case.clone();
        c.mtu = 1500;
        out.push(c);
    }
    if case.isn != [100, 300] && case.isn2.is_none() {
        let mut c = case.clone();
        c.isn = [100, 300];
        out.push(c);
    }
    out
}

impl Scenario for E1 {
    fn id(&self) -> &'static str {
        match self.kind {
            Kind::C01 => "C01",
            Kind::C03 => "C03",
            Kind::C12 => "C12",
            Kind::C17 => "C17",
        }
    }

    fn run_seed(&self, seed: u64, opts: &RunOpts) -> (Value, Outcome) {
        let case = generate(seed, self.kind, opts);
        let out = run_case_kind(&case, self.kind);
        (serde_json::to_value(&case).unwrap(), out)
    }

    fn run_case(&self, case: &Value) -> Outcome {
        match serde_json::from_value::<Case>(case.clone()) {
            Ok(c) => run_case_kind(&c, self.kind),
            Err(e) => {
                let mut o = Outcome::default();
                o.violate(Violation::new("harness-panic", "bad-case", format!("{e}")));
                o
            }
        }
    }

    fn shrink(&self, case: &Value) -> Vec<Value> {
        match serde_json::from_value::<Case>(case.clone()) {
            Ok(c) => shrink_case(&c)
                .into_iter()
                .map(|c| serde_json::to_value(&c).unwrap())
                .collect(),
            Err(_) => vec![],
        }
    }

    fn chunk(&self, _tier: &Tier) -> u64 {
        500
    }

    fn budget(&self, tier: &Tier) -> (u64, u64) {
        match (self.kind, tier) {
            (Kind::C12, Tier::Quick) => (50_000, 50),
            (Kind::C17, Tier::Quick) => (500_000, 50),
            (_, Tier::Quick) => (100_000, 60),
            (Kind::C12, Tier::Thorough) => (5_000_000, 1200),
            (Kind::C17, Tier::Thorough) => (40_000_000, 1200),
            (_, Tier::Thorough) => (10_000_000, 1200),
        }
    }

    fn avoid_switches(&self) -> Vec<&'static str> {
        vec![
            "no_passive_write_before_established",
            "no_close_with_unsent_text",
            "no_shrinking_window",
            "no_syn_with_text_in_syn_sent",
        ]
    }

    fn describe(&self) -> ScenarioInfo {
        ScenarioInfo {
            engine: "E1 tcbsim".into(),
            level: "exploration".into(),
            rule: match self.kind {
                Kind::C01 => "one run = one seeded schedule of application writes/reads, clock ticks and per-segment deliver-any/drop/duplicate choices over two real Tcb objects, followed by a fault-free drain; a run is non-trivial when at least one drop, duplicate or out-of-order delivery fired; distinct = distinct hash of the full event log".into(),
                Kind::C03 => "as C01 plus application closes in every state, old duplicate SYNs and the close-phase liveness drain; transition monitor around every Tcb call".into(),
                Kind::C12 => "each seed runs one C01/C03 schedule twice with two ISN pairs and compares the ISN-normalised traces event by event".into(),
                Kind::C17 => "as C03 plus forged segments (any flags, seq/ack around the window edges, any window, payload) from the peer address injected between legitimate events".into(),
            },
            real_components: vec![
                "tcp::tcb::Tcb (open, send, receive, close, segments, segment_arrives, advance_time)".into(),
                "tcp::tcb::{segment_arrives_listen, segment_arrives_closed}".into(),
                "tcb/{segment,outgoing,modular_cmp,state}.rs, tcp_parsing::{TcpHeader,TcpHeaderBuilder}, Message".into(),
            ],
            stub_components: vec![
                "session loop of tcp_session.rs (segments()/receive() after every event)".into(),
                "Tcp::demux session table (TCB created from LISTEN, deleted on Close)".into(),
                "network, clock, applications (simulator)".into(),
            ],
            fault_kinds: vec![
                "segment drop".into(),
                "segment duplication".into(),
                "reordering / arbitrary delay".into(),
                "timer edges (99/100/101 ms, 2*MSL)".into(),
                "late reads".into(),
                "old duplicate SYN".into(),
                "forged segment".into(),
            ],
            assumptions: vec![
                "the ~40-line session/demux stub mirrors tcp_session.rs and tcp.rs; the real glue runs in engine E2".into(),
                "a seeded sample of schedules, not an enumeration".into(),
            ],
        }
    }
}
