//! C14 simulation clause: frames that fail to decode at some layer are dropped
//! at that layer - they reach no application, change no connection, and the
//! simulation keeps running.

use crate::common::*;
use crate::dd_decode::decodes;
use crate::e2::*;
use crate::sim::{self, E2Case, SimState};
use elvis::applications::DhcpServer;
use elvis::ip_generator::IpRange;
use elvis_core::protocols::dhcp::dhcp_client::DhcpClient;
use elvis_core::protocols::ipv4::ipv4_parsing::{ControlFlags, Ipv4Header, TypeOfService};
use elvis_core::protocols::ipv4::{Ipv4, Ipv4Address, Recipient};
use elvis_core::protocols::socket_api::socket::{ProtocolFamily, SocketType};
use elvis_core::protocols::udp::verif_export::build_udp_header;
use elvis_core::protocols::{Arp, DnsClient, DnsServer, Endpoint, Endpoints, Pci, SocketAPI, Tcp, Udp};
use elvis_core::verif::{Copy as FrameCopy, FrameView, Verdict};
use elvis_core::{ExitStatus, IpTable, Machine, Message, Network, Session};
use std::any::TypeId;
use std::sync::{Arc, Mutex};
use std::time::Duration;

pub struct Malformed;

const H1: [u8; 4] = [10, 0, 0, 1];
const H2: [u8; 4] = [10, 0, 0, 2];
const SRV: [u8; 4] = [1, 3, 3, 7];
const DHCP_SRV: [u8; 4] = [10, 0, 0, 3];

fn sbyte(off: u64) -> u8 {
    (off.wrapping_mul(0x9E37_79B9_7F4A_7C15) >> 56) as u8
}

/// Does this frame fail to decode at some layer of the machine it is meant for?
/// (uses the real decoders; `None` = it decodes everywhere)
pub fn undecodable_layer(protocol_is_arp: bool, bytes: &[u8]) -> Option<&'static str> {
    if protocol_is_arp {
        return match decodes("arp", bytes) {
            Ok(true) => None,
            _ => Some("arp"),
        };
    }
    match decodes("ipv4", bytes) {
        Ok(true) => {}
        _ => return Some("ipv4"),
    }
    // the stack strips ihl*4 = 20 octets
    let proto = bytes[9];
    let rest = &bytes[20..];
    let src: [u8; 4] = bytes[12..16].try_into().unwrap();
    let dst: [u8; 4] = bytes[16..20].try_into().unwrap();
    let (s, d) = (Ipv4Address::new(src), Ipv4Address::new(dst));
    match proto {
        17 => {
            let ok = crate::worker::catching(|| {
                elvis_core::protocols::udp::UdpHeader::from_bytes_ipv4(rest.iter().copied(), rest.len(), s, d).is_ok()
            });
            if !matches!(ok, Ok(true)) {
                return Some("udp");
            }
            let dport = u16::from_be_bytes([rest[2], rest[3]]);
            let payload = &rest[8..];
            if dport == 53 && dst == SRV {
                if !matches!(decodes("dns", payload), Ok(true)) {
                    return Some("dns");
                }
            }
            if (dport == 67 && dst == DHCP_SRV) || dport == 68 {
                if !matches!(decodes("dhcp", payload), Ok(true)) {
                    return Some("dhcp");
                }
            }
            None
        }
        6 => {
            let ok = crate::worker::catching(|| {
                elvis_core::protocols::tcp::TcpHeader::from_bytes(rest.iter().copied(), rest.len(), s, d).is_ok()
            });
            if matches!(ok, Ok(true)) {
                None
            } else {
                Some("tcp")
            }
        }
        _ => None,
    }
}

fn ipv4_bytes(src: [u8; 4], dst: [u8; 4], proto: u8, payload: &[u8]) -> Vec<u8> {
    let h = Ipv4Header {
        ihl: 5,
        type_of_service: TypeOfService::DEFAULT,
        total_length: 20 + payload.len() as u16,
        identification: 7,
        fragment_offset: 0,
        flags: ControlFlags::DEFAULT,
        time_to_live: 30,
        protocol: proto,
        checksum: 0,
        source: Ipv4Address::new(src),
        destination: Ipv4Address::new(dst),
    };
    let mut v = h.serialize().unwrap();
    v.extend_from_slice(payload);
    v
}

fn udp_bytes(src: [u8; 4], sport: u16, dst: [u8; 4], dport: u16, payload: &[u8]) -> Vec<u8> {
    let mut u = build_udp_header(Ipv4Address::new(src), sport, Ipv4Address::new(dst), dport, payload.iter().copied(), payload.len()).unwrap();
    u.extend_from_slice(payload);
    ipv4_bytes(src, dst, 17, &u)
}

/// One candidate malformed frame (IPv4 or ARP) derived from `base` or built from scratch.
fn mangle(base: &[u8], s: &mut impl FnMut(u64) -> u64) -> Vec<u8> {
    let mut v = base.to_vec();
    if v.len() >= 20 && s(5) == 0 {
        // IPv4 total length / more-fragments / fragment offset extremes: what the
        // header says about its own size decides what reassembly computes with
        let tl = [0u16, 1, 5, 19, 20, 21, 28, 0x7fff, 0xffff][s(9) as usize];
        v[2..4].copy_from_slice(&tl.to_be_bytes());
        let fo = [0u16, 1, 2, 3, 0x1fff, 0x1ffe][s(6) as usize];
        let flags = [0u16, 0x2000, 0x2000, 0x6000][s(4) as usize];
        v[6..8].copy_from_slice(&(flags | fo).to_be_bytes());
        return v;
    }
    match s(9) {
        0 => {
            let n = s(v.len() as u64 + 1) as usize;
            v.truncate(n);
        }
        1 if !v.is_empty() => v[0] = (s(16) as u8) << 4 | (v[0] & 0x0f), // version
        2 if !v.is_empty() => v[0] = (v[0] & 0xf0) | s(16) as u8,       // ihl
        3 if v.len() > 1 => v[1] |= 1 + s(3) as u8,                     // reserved TOS bits
        4 if v.len() > 6 => v[6] |= 0x80,                               // reserved flag
        5 if v.len() > 33 => v[32] = (s(16) as u8) << 4,                // TCP data offset / UDP payload byte
        6 if v.len() > 25 => {
            // UDP length field
            let l = s(3) * 30000 + s(8);
            v[24] = (l >> 8) as u8;
            v[25] = l as u8;
        }
        7 => {
            // garbage application payload behind intact headers
            if v.len() > 28 {
                let keep = 28;
                v.truncate(keep);
                let n = s(40);
                for _ in 0..n {
                    v.push(s(256) as u8);
                }
            }
        }
        _ => {
            for _ in 0..1 + s(3) {
                if !v.is_empty() {
                    let bit = s(v.len() as u64 * 8);
                    v[(bit / 8) as usize] ^= 1 << (bit % 8);
                }
            }
        }
    }
    v
}

#[derive(Default)]
struct Log {
    udp_sent: Vec<(u64, usize)>,
    tcp_written: u64,
    tcp_read: Vec<u8>,
    dns_results: Vec<(String, Option<[u8; 4]>)>,
    dhcp_ip: Option<Option<[u8; 4]>>,
    injected: u64,
    errors: Vec<String>,
}

impl E2Run for Malformed {
    fn id(&self) -> &'static str {
        "C14"
    }

    fn run(&self, case: &E2Case, opts: &RunOpts) -> Outcome {
        let log: Arc<Mutex<Log>> = Arc::new(Mutex::new(Log::default()));
        let macs: Arc<Mutex<Vec<u64>>> = Arc::new(Mutex::new(vec![]));
        let layers: Arc<Mutex<Vec<&'static str>>> = Arc::new(Mutex::new(vec![]));
        let (l2, m2, y2) = (log.clone(), macs.clone(), layers.clone());
        let avoid_dns = opts.avoids("no_malformed_dns_payload");
        let avoid_dhcp = opts.avoids("no_malformed_dhcp_payload");
        let (status, state) = sim::run_sim(case, default_cfg(), move || async move {
            draw_scheduler_knobs();
            let ipv4_t = TypeId::of::<Ipv4>();
            let arp_t = TypeId::of::<Arp>();
            let corrupt_pm = *[0u64, 100, 300].get(sim::choose(3) as usize).unwrap();
            let layers_hook = y2.clone();
            // in-flight corruption: an extra copy that fails to decode travels next to the intact frame
            sim::with_state(|s| {
                s.policy = Some(Box::new(move |f: &FrameView, s: &mut SimState, _e: u64| -> Option<Verdict> {
                    if (f.protocol != ipv4_t && f.protocol != arp_t) || corrupt_pm == 0 {
                        return None;
                    }
                    let v = s.draw(1000);
                    if v == 0 || v > corrupt_pm {
                        return None;
                    }
                    let mut draw = |n: u64| s.draw(n.max(1));
                    // damage to a DNS datagram must not change who it is from: every
                    // (address, port) pair is one of the server's counted connections
                    let to_dns = f.protocol == ipv4_t && f.bytes.len() >= 28 && f.bytes[9] == 17 && (f.bytes[22..24] == [0, 53] || f.bytes[20..22] == [0, 53]);
                    let cand = if to_dns {
                        if draw(2) == 0 {
                            f.bytes[..draw(28) as usize].to_vec()
                        } else {
                            let mut v = f.bytes[..28].to_vec();
                            for _ in 0..draw(40) {
                                v.push(draw(256) as u8);
                            }
                            v
                        }
                    } else {
                        mangle(&f.bytes, &mut draw)
                    };
                    let layer = undecodable_layer(f.protocol == arp_t, &cand)?;
                    if (layer == "dns" && avoid_dns) || (layer == "dhcp" && avoid_dhcp) {
                        return None;
                    }
                    layers_hook.lock().unwrap().push(layer);
                    *s.counters.entry("fault_frame_corrupted_in_flight".into()).or_insert(0) += 1;
                    Some(Verdict {
                        copies: vec![
                            FrameCopy::default(),
                            FrameCopy {
                                delay: Duration::from_millis(s.draw(20)),
                                bytes: Some(cand),
                            },
                        ],
                    })
                }))
            });
            let net = Network::basic();
            sim::network_index(Arc::as_ptr(&net) as usize);
            let table = || -> IpTable<Recipient> { [("0.0.0.0/0", Recipient::new(0, None))].into_iter().collect() };
            let mut pcis = vec![];
            for _ in 0..6 {
                let p = Pci::new([net.clone()]);
                m2.lock().unwrap().push(p.mac_addresses().next().unwrap());
                pcis.push(p);
            }
            let mut pcis = pcis.into_iter();
            let macs_v = m2.lock().unwrap().clone();
            // ---- plans
            let n_udp = 2 + sim::choose(6);
            let tcp_chunks: Vec<usize> = (0..2 + sim::choose(6)).map(|_| 1 + sim::choose(3000) as usize).collect();
            let dns_lookups = 1 + sim::choose(2) as usize;
            let n_inject = sim::choose(12) as usize;
            // attacker frames addressed at the DNS service arrive from distinct ports: each is a "connection"
            let mut inject_plan: Vec<(u64, u8, u64, Vec<u8>)> = vec![];
            let mut dns_injections = 0u16;
            for k in 0..n_inject {
                let mut kind = sim::choose(8) as u8;
                if kind == 4 && avoid_dns {
                    kind = 0;
                }
                if (kind == 5 || kind == 6) && avoid_dhcp {
                    kind = 1;
                }
                let mut prebuilt = vec![];
                if kind == 4 {
                    // garbage for the name server behind intact IPv4/UDP headers; every one
                    // that really is undecodable there will be one more connection of the server
                    let p: Vec<u8> = (0..sim::choose(30)).map(|_| sim::choose(256) as u8).collect();
                    prebuilt = udp_bytes([10, 0, 0, 66], 30_000 + k as u16, SRV, 53, &p);
                    if undecodable_layer(false, &prebuilt) == Some("dns") {
                        dns_injections += 1;
                    }
                }
                inject_plan.push((50 + sim::choose(1500), kind, k as u64, prebuilt));
            }
            let dns_names = ["alpha.example", "beta.example"];
            // ---- H1: UDP sender, TCP client, DNS client
            let log_h1 = l2.clone();
            let tcp_plan = tcp_chunks.clone();
            let h1 = App::<0>::new(0)
                .pre(|ctx: &Ctx| {
                    let _ = ctx.machine.protocol::<Udp>().unwrap().listen(TypeId::of::<App<0>>(), Endpoint::new(Ipv4Address::new(H1), 7000), ctx.machine.clone());
                })
                .script(move |ctx: Ctx| async move {
                    let udp = ctx.machine.protocol::<Udp>().unwrap();
                    let eps = Endpoints::new(Endpoint::new(Ipv4Address::new(H1), 7000), Endpoint::new(Ipv4Address::new(H2), 7000));
                    let session = udp.open_for_sending(TypeId::of::<App<0>>(), eps, ctx.machine.clone()).await;
                    // the TCP stream
                    let api = ctx.machine.protocol::<SocketAPI>().unwrap();
                    let mut sock = api.new_socket(ProtocolFamily::INET, SocketType::Stream, ctx.machine.clone()).await.unwrap();
                    let tcp_ok = sock.connect(Endpoint::new(Ipv4Address::new(H2), 8000)).await.is_ok();
                    let mut off = 0u64;
                    let mut chunks = tcp_plan.into_iter();
                    for k in 0..n_udp {
                        if let Ok(s) = &session {
                            let len = 8 + (k as usize * 37) % 200;
                            if s.send(Message::new(marked_payload(1000 + k, len)), ctx.machine.clone()).is_ok() {
                                log_h1.lock().unwrap().udp_sent.push((1000 + k, len));
                            }
                        }
                        if tcp_ok {
                            if let Some(n) = chunks.next() {
                                let data: Vec<u8> = (0..n as u64).map(|i| sbyte(off + i)).collect();
                                if sock.send(data).is_ok() {
                                    off += n as u64;
                                    log_h1.lock().unwrap().tcp_written = off;
                                }
                            }
                        }
                        tokio::time::sleep(Duration::from_millis(150)).await;
                    }
                    for n in chunks {
                        let data: Vec<u8> = (0..n as u64).map(|i| sbyte(off + i)).collect();
                        if tcp_ok && sock.send(data).is_ok() {
                            off += n as u64;
                            log_h1.lock().unwrap().tcp_written = off;
                        }
                        tokio::time::sleep(Duration::from_millis(150)).await;
                    }
                    // name lookups
                    let dns = ctx.machine.protocol::<DnsClient>().unwrap();
                    for k in 0..dns_lookups {
                        let name = dns_names[k % 2].to_string();
                        let r = tokio::time::timeout(Duration::from_secs(10), dns.get_host_by_name(name.clone(), ctx.machine.clone())).await;
                        log_h1.lock().unwrap().dns_results.push((name, r.ok().and_then(|r| r.ok()).map(|ip| ip.to_bytes())));
                    }
                    // let the attacker finish and everything settle
                    tokio::time::sleep(Duration::from_secs(4)).await;
                    drop(sock);
                    ctx.shutdown.shut_down();
                });
            // ---- H2: UDP recorder, TCP server
            let log_h2 = l2.clone();
            let h2 = App::<0>::new(1)
                .pre(|ctx: &Ctx| {
                    let _ = ctx.machine.protocol::<Udp>().unwrap().listen(TypeId::of::<App<0>>(), Endpoint::new(Ipv4Address::new(H2), 7000), ctx.machine.clone());
                })
                .script(move |ctx: Ctx| async move {
                    let api = ctx.machine.protocol::<SocketAPI>().unwrap();
                    let mut l = api.new_socket(ProtocolFamily::INET, SocketType::Stream, ctx.machine.clone()).await.unwrap();
                    if l.bind(Endpoint::new(Ipv4Address::new(H2), 8000)).is_err() || l.listen(4).is_err() {
                        log_h2.lock().unwrap().errors.push("listen failed".into());
                        return;
                    }
                    let Ok(Ok(mut s)) = tokio::time::timeout(Duration::from_secs(30), l.accept()).await else {
                        return;
                    };
                    loop {
                        match tokio::time::timeout(Duration::from_secs(3), s.recv(4096)).await {
                            Ok(Ok(b)) => log_h2.lock().unwrap().tcp_read.extend_from_slice(&b),
                            _ => break,
                        }
                    }
                });
            // ---- the DHCP client machine
            let log_dc = l2.clone();
            let dc = App::<0>::new(4).script(move |ctx: Ctx| async move {
                let d = ctx.machine.protocol::<DhcpClient>().unwrap();
                let ip = tokio::time::timeout(Duration::from_secs(5), d.ip_address()).await.ok();
                log_dc.lock().unwrap().dhcp_ip = Some(ip.map(|i| i.to_bytes()));
            });
            // ---- the attacker: raw frames for Ipv4 and Arp
            let log_a = l2.clone();
            let layers_a = y2.clone();
            let attacker = App::<0>::new(5).script(move |ctx: Ctx| async move {
                let pci = ctx.machine.protocol::<Pci>().unwrap().open(0);
                let mut elapsed = 0;
                let mut plan = inject_plan;
                plan.sort();
                for (at, kind, k, prebuilt) in plan {
                    if at > elapsed {
                        tokio::time::sleep(Duration::from_millis(at - elapsed)).await;
                        elapsed = at;
                    }
                    let mut draw = |n: u64| sim::choose(n.max(1));
                    let sport = 30_000 + k as u16;
                    // a well-formed carrier, then damage
                    let (is_arp, bytes, dest_mac): (bool, Vec<u8>, Option<u64>) = match kind {
                        0 => (false, mangle(&udp_bytes([10, 0, 0, 66], sport, H2, 7000, &marked_payload(66_000 + k, 20)), &mut draw), Some(macs_v[1])),
                        1 => (false, mangle(&ipv4_bytes(H1, H2, 6, &[0x1b, 0x58, 0x1f, 0x40, 0, 0, 0, 1, 0, 0, 0, 1, 0x50, 0x10, 0xff, 0xff, 0, 0, 0, 0, 1, 2, 3]), &mut draw), Some(macs_v[1])),
                        2 => {
                            let a = elvis_core::protocols::arp::arp_parsing::ArpPacket::new_request(macs_v[5], Ipv4Address::new([10, 0, 0, 66]), Ipv4Address::new(H2)).build();
                            let n = draw(a.len() as u64) as usize;
                            (true, a[..n].to_vec(), None)
                        }
                        3 => (false, (0..draw(60)).map(|_| draw(256) as u8).collect(), None),
                        4 => (false, prebuilt, Some(macs_v[2])),
                        5 => {
                            let mut p: Vec<u8> = vec![1, 1, 6, 0, 0, 0, 0, 1, 0, 0, 0, 0, 0, 0, 0, 0, 0, 0, 0, 0, 0, 0, 0, 0, 0, 0, 0, 0, 0];
                            p.push(*[0u8, 8, 9, 200, 255].get(draw(5) as usize).unwrap());
                            p.extend_from_slice(&[0xff, 0xfe, 0, b'x', 0]);
                            (false, udp_bytes([10, 0, 0, 66], 68, DHCP_SRV, 67, &p), Some(macs_v[3]))
                        }
                        6 => {
                            let p: Vec<u8> = (0..draw(40)).map(|_| draw(256) as u8).collect();
                            (false, udp_bytes(DHCP_SRV, 67, [0, 0, 0, 0], 68, &p), Some(macs_v[4]))
                        }
                        _ => (false, mangle(&udp_bytes([10, 0, 0, 66], sport, H1, 7000, &marked_payload(67_000 + k, 30)), &mut draw), None),
                    };
                    match undecodable_layer(is_arp, &bytes) {
                        Some(layer) => {
                            layers_a.lock().unwrap().push(layer);
                            log_a.lock().unwrap().injected += 1;
                            let _ = pci.send_pci(Message::new(bytes), dest_mac, if is_arp { TypeId::of::<Arp>() } else { TypeId::of::<Ipv4>() });
                        }
                        None => {
                            // it still decodes everywhere: ordinary traffic, not sent
                            sim::count("candidate_still_decodable");
                        }
                    }
                }
            });
            // ---- machines
            let dns = DnsServer::new(dns_lookups.min(2) as u16 + dns_injections);
            dns.add_mapping("alpha.example".into(), Ipv4Address::new([9, 9, 9, 1]));
            dns.add_mapping("beta.example".into(), Ipv4Address::new([9, 9, 9, 2]));
            let host = |ip: [u8; 4], pci: Pci| {
                Machine::new()
                    .with(SocketAPI::new(Some(Ipv4Address::new(ip))))
                    .with(Tcp::new())
                    .with(Udp::new())
                    .with(Ipv4::new(table()))
                    .with(Arp::new())
                    .with(pci)
            };
            let machines = vec![
                host(H1, pcis.next().unwrap()).with(DnsClient::new()).with(h1).arc(),
                host(H2, pcis.next().unwrap()).with(h2).arc(),
                host(SRV, pcis.next().unwrap()).with(dns).arc(),
                Machine::new()
                    .with(DhcpServer::new(Ipv4Address::new(DHCP_SRV), IpRange::new(Ipv4Address::new([10, 0, 9, 1]), Ipv4Address::new([10, 0, 9, 9]))))
                    .with(Udp::new())
                    .with(Ipv4::new(table()))
                    .with(pcis.next().unwrap())
                    .arc(),
                Machine::new()
                    .with(DhcpClient::new(Ipv4Address::new(DHCP_SRV)))
                    .with(Udp::new())
                    .with(Ipv4::new(table()))
                    .with(pcis.next().unwrap())
                    .with(dc)
                    .arc(),
                Machine::new().with(pcis.next().unwrap()).with(attacker).arc(),
            ];
            run_machines(machines, 120_000).await
        });
        let mut out = Outcome::default();
        finish(&state, &mut out);
        let log = log.lock().unwrap();
        for l in layers.lock().unwrap().iter() {
            out.count(&format!("undecodable_at_{l}"));
            out.nontrivial = true;
        }
        out.add("frames_injected_by_attacker", log.injected);
        if std::env::var("VERIF_TRACE").is_ok() {
            let ipv4 = TypeId::of::<Ipv4>();
            eprintln!("dns_results={:?} dhcp={:?} injected={} errors={:?}", log.dns_results, log.dhcp_ip, log.injected, log.errors);
            for f in state.frames.iter().filter(|f| f.protocol == ipv4 && f.bytes.len() > 24 && ((f.bytes[9] == 17) && (f.bytes[22..24] == [0, 53] || f.bytes[20..22] == [0, 53]) || f.time_ms > 850)) {
                eprintln!("  t={} ev={} x{} corrupted={} {} :: {:?}", f.time_ms, f.event, f.copies, f.corrupted, describe_ipv4_frame(&f.bytes), undecodable_layer(false, &f.bytes));
            }
        }
        // the simulation keeps running and ends as scripted
        if status != Some(ExitStatus::Exited) {
            out.violate(Violation::new(
                "simulation-did-not-keep-running",
                "",
                format!("the run ended with {status:?} instead of the scripted shutdown (errors {:?})", log.errors),
            ));
            return out;
        }
        // applications only ever see intact marked payloads
        for r in &state.rx {
            if r.machine > 1 {
                continue;
            }
            let ok = payload_id(&r.payload)
                .and_then(|id| log.udp_sent.iter().find(|(i, _)| *i == id))
                .map(|(id, len)| r.payload == marked_payload(*id, *len))
                .unwrap_or(false);
            if !ok {
                out.violate(Violation::new(
                    "reached-an-application",
                    "",
                    format!("an application on machine {} received {} bytes that are not one of the legitimate datagrams", r.machine, r.payload.len()),
                ));
            }
        }
        out.add("udp_delivered", state.rx.iter().filter(|r| r.machine == 1).count() as u64);
        if (state.rx.iter().filter(|r| r.machine == 1).count() as u64) < log.udp_sent.len() as u64 {
            out.violate(Violation::new(
                "legitimate-traffic-disturbed",
                "udp",
                format!("{} of {} legitimate datagrams arrived although nothing was dropped", state.rx.iter().filter(|r| r.machine == 1).count(), log.udp_sent.len()),
            ));
        }
        // the TCP connection is unchanged: the stream is complete and intact
        let want: Vec<u8> = (0..log.tcp_written).map(sbyte).collect();
        if log.tcp_read != want {
            let p = log.tcp_read.iter().zip(want.iter()).position(|(a, b)| a != b).unwrap_or(log.tcp_read.len().min(want.len()));
            out.violate(Violation::new(
                "connection-changed",
                if log.tcp_read.len() < want.len() && p == log.tcp_read.len() { "stream-incomplete" } else { "stream-corrupted" },
                format!("the TCP stream next to the malformed frames: {} bytes written, {} read, first difference at {p}", want.len(), log.tcp_read.len()),
            ));
        }
        out.add("tcp_bytes_checked", want.len() as u64);
        for (name, r) in &log.dns_results {
            let want = if name == "alpha.example" { [9, 9, 9, 1] } else { [9, 9, 9, 2] };
            if *r != Some(want) {
                out.violate(Violation::new("legitimate-traffic-disturbed", "dns", format!("lookup of {name} returned {r:?}")));
            }
        }
        match log.dhcp_ip {
            Some(Some(ip)) if ip[..3] == [10, 0, 9] => {}
            other => out.violate(Violation::new("legitimate-traffic-disturbed", "dhcp", format!("the DHCP client learnt {other:?}"))),
        }
        out
    }

    fn budget(&self, tier: &Tier) -> (u64, u64) {
        match tier {
            Tier::Quick => (60_000, 50),
            Tier::Thorough => (4_000_000, 1200),
        }
    }

    fn avoid_switches(&self) -> Vec<&'static str> {
        vec!["no_malformed_dns_payload", "no_malformed_dhcp_payload"]
    }

    fn describe(&self) -> ScenarioInfo {
        ScenarioInfo {
            engine: "E2 netsim".into(),
            level: "exploration".into(),
            rule: "one run = a live network (marked UDP datagrams, a TCP socket stream, ARP, DNS lookups against a DnsServer, a DhcpClient/DhcpServer exchange) while (a) the frame hook adds damaged copies of frames in flight (truncation at any length, version/IHL/reserved bits, length and offset fields, bit flips) and (b) an attacker machine injects raw IPv4 and ARP frames, including well-formed UDP datagrams with garbage for ports 53, 67, 68; every candidate is classified with the real decoders and only those that fail at IPv4, UDP, TCP, ARP, DNS or DHCP level are used; non-trivial = at least one undecodable frame travelled".into(),
            real_components: vec!["Ipv4, Udp, Tcp (+TcpSession/Tcb), Arp, SocketAPI/Socket, DnsServer, DnsClient, DhcpServer, DhcpClient, Pci, Network, run_internet and its exiting panic hook".into()],
            stub_components: vec!["recording applications, attacker (harness)".into()],
            fault_kinds: vec!["damaged extra copy of a frame in flight".into(), "raw frame injection".into(), "garbage payload behind intact headers".into(), "task-order perturbation".into()],
            assumptions: vec!["checksums are compiled out in this build, so only structural damage is detectable; damage that still decodes is ordinary traffic and not asserted on".into()],
        }
    }
}
