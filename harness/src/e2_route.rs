//! C16: routers forward along the route and TTL bounds every packet's life.

use crate::common::*;
use crate::e2::*;
use crate::sim::{self, E2Case, FaultPlan, SimState};
use elvis_core::verif::{Copy as FrameCopy, FrameView, Verdict};
use elvis::applications::ArpRouter;
use elvis_core::machine::PciSlot;
use elvis_core::protocols::arp::subnetting::{Ipv4Mask, Ipv4Net, SubnetInfo};
use elvis_core::protocols::ipv4::{Ipv4, Ipv4Address, Recipient};
use elvis_core::protocols::{Arp, Endpoint, Endpoints, Pci, Udp};
use elvis_core::{ExitStatus, IpTable, Machine, Message, Network, Session};
use std::any::TypeId;
use std::collections::BTreeMap;
use std::sync::{Arc, Mutex};
use std::time::Duration;

pub struct Route;

/// One routing entry: prefix (ip, bits) -> (next hop, slot)
#[derive(Clone, Debug)]
struct Entry {
    ip: [u8; 4],
    bits: u32,
    next: Option<[u8; 4]>,
    slot: usize,
}

#[derive(Clone, Debug, Default)]
struct Topo {
    /// per router: attached subnets in slot order, and its address on each
    routers: Vec<(Vec<usize>, Vec<[u8; 4]>, Vec<Entry>)>,
    /// hosts: (subnet, ip, gateway ip)
    hosts: Vec<(usize, [u8; 4], [u8; 4])>,
    n_subnets: usize,
    subnet_bits: Vec<u32>,
    storm: bool,
}

#[derive(Clone, Debug)]
struct Dgram {
    id: u64,
    src_host: usize,
    dst: [u8; 4],
    opened: bool,
}

fn u(ip: [u8; 4]) -> u32 {
    u32::from_be_bytes(ip)
}

fn in_prefix(addr: [u8; 4], ip: [u8; 4], bits: u32) -> bool {
    if bits == 0 {
        return true;
    }
    let mask = u32::MAX << (32 - bits);
    (u(addr) & mask) == (u(ip) & mask)
}

/// reference longest-prefix match
/// Datagram ids of the second round of a storm run.
const SECOND: u64 = 1 << 40;

fn lpm(entries: &[Entry], addr: [u8; 4]) -> Option<&Entry> {
    entries
        .iter()
        .filter(|e| in_prefix(addr, e.ip, e.bits))
        .max_by_key(|e| e.bits)
}

impl E2Run for Route {
    fn id(&self) -> &'static str {
        "C16"
    }

    fn run(&self, case: &E2Case, _opts: &RunOpts) -> Outcome {
        let topo_cell: Arc<Mutex<Topo>> = Arc::new(Mutex::new(Topo::default()));
        let dgrams: Arc<Mutex<Vec<Dgram>>> = Arc::new(Mutex::new(vec![]));
        let (t2, d2) = (topo_cell.clone(), dgrams.clone());
        let (status, state) = sim::run_sim(case, default_cfg(), move || async move {
            draw_scheduler_knobs();
            let delay_pm = *[0u64, 200, 600].get(sim::choose(3) as usize).unwrap();
            // storm: the frames some taps send during the first 2.1..6.1 s are held back until then,
            // longer than the 2 s an ARP resolution waits; a second round of datagrams follows once all is quiet
            let storm = sim::chance(1, 4);
            if storm {
                sim::count("probe_runs_with_arp_storm");
                // per sending tap: are its frames of the first hold_ms held back until then?
                let hold_ms = 2100 + sim::choose(4000);
                sim::with_state(|s| {
                    let mut held: BTreeMap<u64, bool> = BTreeMap::new();
                    s.policy = Some(Box::new(move |f: &FrameView, s: &mut SimState, _e: u64| -> Option<Verdict> {
                        let now = s.start.elapsed().as_millis() as u64;
                        if now >= hold_ms {
                            return None;
                        }
                        let h = match held.get(&f.sender) {
                            Some(h) => *h,
                            None => {
                                let h = s.draw(2) == 1;
                                held.insert(f.sender, h);
                                h
                            }
                        };
                        if !h {
                            return None;
                        }
                        *s.counters.entry("fault_frame_held_back".into()).or_insert(0) += 1;
                        Some(Verdict {
                            copies: vec![FrameCopy {
                                delay: Duration::from_millis(hold_ms - now + s.draw(300)),
                                bytes: None,
                            }],
                        })
                    }))
                });
            } else {
                sim::with_state(|s| {
                    s.plan = FaultPlan {
                        delay: delay_pm,
                        max_delay_ms: 100,
                        ..Default::default()
                    }
                });
            }
            // ---- topology: routers joined by subnets in a line, a star or a ring
            let n_routers = 1 + sim::choose(4) as usize;
            let shape = sim::choose(3); // 0 line, 1 star, 2 ring
            let mut router_subnets: Vec<Vec<usize>> = vec![vec![]; n_routers];
            let mut n_subnets = 0usize;
            let mut new_subnet = |n: &mut usize| {
                *n += 1;
                *n - 1
            };
            match shape {
                1 if n_routers > 1 => {
                    // one transit subnet shared by all routers, plus a leaf each
                    let hub = new_subnet(&mut n_subnets);
                    for r in router_subnets.iter_mut() {
                        r.push(hub);
                    }
                }
                _ => {
                    // transit subnets between neighbours
                    for r in 0..n_routers.saturating_sub(1) {
                        let s = new_subnet(&mut n_subnets);
                        router_subnets[r].push(s);
                        router_subnets[r + 1].push(s);
                    }
                    if shape == 2 && n_routers > 2 {
                        let s = new_subnet(&mut n_subnets);
                        router_subnets[n_routers - 1].push(s);
                        router_subnets[0].push(s);
                    }
                }
            }
            for r in router_subnets.iter_mut() {
                // leaf subnets
                let leaves = 1 + sim::choose(2);
                for _ in 0..leaves {
                    if n_subnets < 5 || r.is_empty() {
                        r.push(new_subnet(&mut n_subnets));
                    }
                }
            }
            // subnet s is 10.(8(s+1)).0.0/bits with bits in 22..=26
            let subnet_bits: Vec<u32> = (0..n_subnets).map(|_| *[24u32, 24, 22, 23, 25, 26].get(sim::choose(6) as usize).unwrap()).collect();
            let sb2 = subnet_bits.clone();
            let subnet_ip = |s: usize, host: u8| -> [u8; 4] { [10, 8 * (s as u8 + 1), 0, host] };
            let router_ip = |r: usize, s: usize| -> [u8; 4] { subnet_ip(s, 1 + r as u8) };
            // a host address: ordinary, or one of the corners of a wide subnet (last octet 255 or 0
            // in the middle of the block, the address below the broadcast address)
            let host_ip = |s: usize, h: usize| -> [u8; 4] {
                let bits = sb2[s];
                let base = u(subnet_ip(s, 0));
                let size = 1u32 << (32 - bits);
                let pick = sim::choose(6);
                let off = match pick {
                    0 if size > 256 => 255,
                    1 if size > 256 => 256,
                    2 if size > 512 => 511 + 256 * sim::choose((size / 256 - 2) as u64) as u32,
                    3 => size - 2,
                    _ => 10 + h as u32,
                };
                if off % 256 == 255 || off % 256 == 0 {
                    sim::count("probe_host_address_ending_in_255_or_0");
                }
                (base + off).to_be_bytes()
            };
            // hosts
            let mut hosts: Vec<(usize, [u8; 4], [u8; 4])> = vec![];
            for s in 0..n_subnets {
                let attached: Vec<usize> = (0..n_routers).filter(|r| router_subnets[*r].contains(&s)).collect();
                let n_hosts = 1 + sim::choose(3) as usize;
                for h in 0..n_hosts {
                    let gw_router = attached[sim::choose(attached.len() as u64) as usize];
                    let mut ip = host_ip(s, h);
                    if hosts.iter().any(|x: &(usize, [u8; 4], [u8; 4])| x.1 == ip) {
                        ip = subnet_ip(s, 10 + h as u8);
                    }
                    hosts.push((s, ip, router_ip(gw_router, s)));
                }
            }
            // ---- routing tables: shortest path next hops, then perturbations
            let neighbours = |r: usize| -> Vec<(usize, usize)> {
                // (other router, shared subnet)
                let mut v = vec![];
                for o in 0..n_routers {
                    if o != r {
                        for s in &router_subnets[r] {
                            if router_subnets[o].contains(s) {
                                v.push((o, *s));
                            }
                        }
                    }
                }
                v
            };
            let mut tables: Vec<Vec<Entry>> = vec![];
            for r in 0..n_routers {
                let mut entries = vec![];
                for dst in 0..n_subnets {
                    // BFS over routers
                    let entry = if let Some(slot) = router_subnets[r].iter().position(|s| *s == dst) {
                        Some(Entry {
                            ip: subnet_ip(dst, 0),
                            bits: subnet_bits[dst],
                            next: None,
                            slot,
                        })
                    } else {
                        let mut dist = vec![usize::MAX; n_routers];
                        let mut first: Vec<Option<(usize, usize)>> = vec![None; n_routers];
                        let mut queue = std::collections::VecDeque::new();
                        dist[r] = 0;
                        queue.push_back(r);
                        let mut found = None;
                        while let Some(x) = queue.pop_front() {
                            if router_subnets[x].contains(&dst) && x != r {
                                found = first[x];
                                break;
                            }
                            for (o, s) in neighbours(x) {
                                if dist[o] == usize::MAX {
                                    dist[o] = dist[x] + 1;
                                    first[o] = if x == r { Some((o, s)) } else { first[x] };
                                    queue.push_back(o);
                                }
                            }
                        }
                        found.map(|(o, s)| Entry {
                            ip: subnet_ip(dst, 0),
                            bits: subnet_bits[dst],
                            next: Some(router_ip(o, s)),
                            slot: router_subnets[r].iter().position(|x| *x == s).unwrap(),
                        })
                    };
                    if let Some(e) = entry {
                        entries.push(e);
                    }
                }
                tables.push(entries);
            }
            // perturbations: missing routes, wrong next hops (loops), more specific host routes, default routes
            for r in 0..n_routers {
                let n_pert = sim::choose(3);
                for _ in 0..n_pert {
                    match sim::choose(6) {
                        4 | 5 if !hosts.is_empty() => {
                            // nested prefixes of adjacent lengths around one host, each
                            // pointing somewhere else: only the longest may win
                            let h = hosts[sim::choose(hosts.len() as u64) as usize];
                            let nb = neighbours(r);
                            if !nb.is_empty() && !router_subnets[r].contains(&h.0) {
                                let lens: &[u32] = match sim::choose(4) {
                                    0 => &[31, 32],
                                    1 => &[30, 31],
                                    2 => &[25, 31, 32],
                                    _ => &[23, 24, 25],
                                };
                                for bits in lens {
                                    let (o, sn) = nb[sim::choose(nb.len() as u64) as usize];
                                    let mask = if *bits == 0 { 0 } else { u32::MAX << (32 - bits) };
                                    let ip = (u(h.1) & mask).to_be_bytes();
                                    if !tables[r].iter().any(|e| e.bits == *bits && e.ip == ip) {
                                        tables[r].push(Entry {
                                            ip,
                                            bits: *bits,
                                            next: Some(router_ip(o, sn)),
                                            slot: router_subnets[r].iter().position(|x| *x == sn).unwrap(),
                                        });
                                    }
                                }
                            }
                        }
                        0 if !tables[r].is_empty() => {
                            let k = sim::choose(tables[r].len() as u64) as usize;
                            if tables[r][k].next.is_some() {
                                tables[r].remove(k);
                            }
                        }
                        1 => {
                            // send some subnet towards a random neighbour (may loop)
                            let nb = neighbours(r);
                            if !nb.is_empty() {
                                let (o, s) = nb[sim::choose(nb.len() as u64) as usize];
                                let dst = sim::choose(n_subnets as u64) as usize;
                                if !router_subnets[r].contains(&dst) {
                                    tables[r].retain(|e| !(e.bits == subnet_bits[dst] && e.ip == subnet_ip(dst, 0)));
                                    tables[r].push(Entry {
                                        ip: subnet_ip(dst, 0),
                                        bits: subnet_bits[dst],
                                        next: Some(router_ip(o, s)),
                                        slot: router_subnets[r].iter().position(|x| *x == s).unwrap(),
                                    });
                                }
                            }
                        }
                        2 if !hosts.is_empty() => {
                            // a host route that overrides the subnet route
                            let h = hosts[sim::choose(hosts.len() as u64) as usize];
                            let nb = neighbours(r);
                            if !nb.is_empty() && !router_subnets[r].contains(&h.0) {
                                let (o, s) = nb[sim::choose(nb.len() as u64) as usize];
                                tables[r].push(Entry {
                                    ip: h.1,
                                    bits: 32,
                                    next: Some(router_ip(o, s)),
                                    slot: router_subnets[r].iter().position(|x| *x == s).unwrap(),
                                });
                            }
                        }
                        _ => {
                            // a default route
                            let nb = neighbours(r);
                            if !nb.is_empty() && !tables[r].iter().any(|e| e.bits == 0) {
                                let (o, s) = nb[sim::choose(nb.len() as u64) as usize];
                                tables[r].push(Entry {
                                    ip: [0, 0, 0, 0],
                                    bits: 0,
                                    next: Some(router_ip(o, s)),
                                    slot: router_subnets[r].iter().position(|x| *x == s).unwrap(),
                                });
                            }
                        }
                    }
                }
            }
            let topo = Topo {
                routers: (0..n_routers)
                    .map(|r| {
                        (
                            router_subnets[r].clone(),
                            router_subnets[r].iter().map(|s| router_ip(r, *s)).collect(),
                            tables[r].clone(),
                        )
                    })
                    .collect(),
                hosts: hosts.clone(),
                n_subnets,
                subnet_bits: subnet_bits.clone(),
                storm,
            };
            *t2.lock().unwrap() = topo.clone();
            // ---- machines
            let nets: Vec<Arc<Network>> = (0..n_subnets)
                .map(|_| {
                    let n = Network::basic();
                    sim::network_index(Arc::as_ptr(&n) as usize);
                    n
                })
                .collect();
            let mut machines = vec![];
            for (subs, ips, entries) in &topo.routers {
                let mut table: IpTable<(Option<Ipv4Address>, PciSlot)> = IpTable::new();
                for e in entries {
                    table.add(
                        Ipv4Net::new(Ipv4Address::new(e.ip), Ipv4Mask::from_bitcount(e.bits)),
                        (e.next.map(Ipv4Address::new), e.slot as PciSlot),
                    );
                }
                let mut own: IpTable<Recipient> = IpTable::new();
                for (slot, ip) in ips.iter().enumerate() {
                    own.add_direct(Ipv4Address::new(*ip), Recipient::new(slot as u32, None));
                }
                machines.push(
                    Machine::new()
                        .with(Pci::new(subs.iter().map(|s| nets[*s].clone())))
                        .with(Ipv4::new(own))
                        .with(Arp::new())
                        .with(ArpRouter::new(table, ips.iter().map(|i| Ipv4Address::new(*i)).collect()))
                        .arc(),
                );
            }
            let n_hosts = hosts.len();
            // datagrams
            let n_dgrams = 1 + sim::choose(6) as usize;
            let mut plans: Vec<Vec<(u64, [u8; 4], u64)>> = vec![vec![]; n_hosts];
            for k in 0..n_dgrams {
                let src = sim::choose(n_hosts as u64) as usize;
                let dst = match sim::choose(8) {
                    0 => subnet_ip(sim::choose(n_subnets as u64) as usize, 99), // no such host
                    1 => [10, 250, 0, 10],                                      // no such subnet
                    _ => hosts[sim::choose(n_hosts as u64) as usize].1,
                };
                plans[src].push((k as u64 + 1, dst, sim::choose(3) * sim::choose(200)));
                if storm {
                    // the same pair again when every held-back frame has long arrived
                    plans[src].push(((k as u64 + 1) | SECOND, dst, 40_000 + sim::choose(3) * sim::choose(200)));
                }
            }
            for (h, (s, ip, gw)) in hosts.iter().enumerate() {
                let plan = plans[h].clone();
                let dlog = d2.clone();
                let ip = *ip;
                let last = h + 1 == n_hosts;
                let app = App::<0>::new(h)
                    .pre(move |ctx: &Ctx| {
                        let _ = ctx.machine.protocol::<Udp>().unwrap().listen(
                            TypeId::of::<App<0>>(),
                            Endpoint::new(Ipv4Address::new(ip), 9000),
                            ctx.machine.clone(),
                        );
                    })
                    .script(move |ctx: Ctx| async move {
                        for (id, dst, gap) in plan {
                            let ctx = ctx.clone();
                            let dlog = dlog.clone();
                            elvis_core::verif::tokio::spawn(async move {
                                if gap > 0 {
                                    tokio::time::sleep(Duration::from_millis(gap)).await;
                                }
                                let eps = Endpoints::new(
                                    Endpoint::new(Ipv4Address::new(ip), 9000),
                                    Endpoint::new(Ipv4Address::new(dst), 9000),
                                );
                                let udp = ctx.machine.protocol::<Udp>().unwrap();
                                let session = udp.open_for_sending(TypeId::of::<App<0>>(), eps, ctx.machine.clone()).await;
                                let opened = session.is_ok();
                                if let Ok(session) = session {
                                    let _ = session.send(Message::new(marked_payload(id, 40)), ctx.machine.clone());
                                }
                                sim::note_trace(11, id, opened as u64);
                                dlog.lock().unwrap().push(Dgram {
                                    id,
                                    src_host: ctx.machine_id,
                                    dst,
                                    opened,
                                });
                            });
                        }
                        if last {
                            // 30 hops with ARP retries at every hop fit comfortably
                            tokio::time::sleep(Duration::from_secs(120)).await;
                            ctx.shutdown.shut_down();
                        }
                    });
                let own: IpTable<Recipient> = [(Ipv4Address::new(ip), Recipient::new(0, None))].into_iter().collect();
                machines.push(
                    Machine::new()
                        .with(Udp::new())
                        .with(Ipv4::new(own))
                        .with(Pci::new([nets[*s].clone()]))
                        .with(Arp::new().preconfig_subnet(
                            Ipv4Address::new(ip),
                            SubnetInfo::new(Ipv4Mask::from_bitcount(subnet_bits[*s]), Ipv4Address::new(*gw)),
                        ))
                        .with(app)
                        .arc(),
                );
            }
            run_machines(machines, 400_000).await
        });
        let mut out = Outcome::default();
        finish(&state, &mut out);
        if status != Some(ExitStatus::Exited) {
            out.violate(Violation::new("harness-panic", "unexpected-exit", format!("routing scenario ended with {status:?}")));
            return out;
        }
        let topo = topo_cell.lock().unwrap().clone();
        let dgrams = dgrams.lock().unwrap().clone();
        let ipv4 = TypeId::of::<Ipv4>();
        // who claims an address on a subnet?
        let claimed = |s: usize, ip: [u8; 4]| -> Option<(bool, usize)> {
            for (r, (subs, ips, _)) in topo.routers.iter().enumerate() {
                for (k, sub) in subs.iter().enumerate() {
                    if *sub == s && ips[k] == ip {
                        return Some((true, r));
                    }
                }
            }
            for (h, (hs, hip, _)) in topo.hosts.iter().enumerate() {
                if *hs == s && *hip == ip {
                    return Some((false, h));
                }
            }
            None
        };
        for d in &dgrams {
            let (src_subnet, src_ip, gw) = topo.hosts[d.src_host];
            // ---- the model: the list of (network, ttl) the datagram must appear on, and who receives it
            let mut expect: Vec<(usize, u8)> = vec![];
            let mut deliver_to: Option<usize> = None;
            let mut fate = "delivered";
            // first hop: the host resolves the destination itself (same /24) or its gateway
            let same = in_prefix(d.dst, src_ip, topo.subnet_bits[src_subnet]);
            // first round of a storm run: a hop whose resolution ran out of patience drops the datagram
            let may_stop_early = topo.storm && d.id & SECOND == 0;
            if topo.storm && d.id & SECOND != 0 && !d.opened && claimed(src_subnet, if same { d.dst } else { gw }).is_some() {
                out.violate(Violation::new(
                    "resolution",
                    "still-failing-after-the-answer-arrived",
                    format!("datagram {} (second round, 40 s after the held-back frames): the source could not resolve its first hop although that machine answered", d.id & !SECOND),
                ));
            }
            let first_target = if same { d.dst } else { gw };
            let mut ttl: i32 = 30;
            let mut at: Option<(bool, usize)> = None; // where the frame lands
            match claimed(src_subnet, first_target) {
                Some(owner) if d.opened || may_stop_early => {
                    expect.push((src_subnet, ttl as u8));
                    at = Some(owner);
                }
                _ => {
                    fate = "unresolvable-at-source";
                }
            }
            let mut hops = 0;
            while let Some((is_router, idx)) = at {
                if !is_router {
                    // a host: takes it when it is the destination, otherwise its IPv4 drops it
                    if topo.hosts[idx].1 == d.dst {
                        deliver_to = Some(idx);
                    } else {
                        fate = "wrong-host";
                    }
                    break;
                }
                hops += 1;
                if hops > 40 {
                    break;
                }
                let (subs, _ips, entries) = &topo.routers[idx];
                ttl -= 1;
                if ttl <= 0 {
                    fate = "ttl-expired";
                    break;
                }
                let Some(e) = lpm(entries, d.dst) else {
                    fate = "no-route";
                    break;
                };
                let target = e.next.unwrap_or(d.dst);
                let out_net = subs[e.slot];
                match claimed(out_net, target) {
                    Some(owner) => {
                        expect.push((out_net, ttl as u8));
                        at = Some(owner);
                    }
                    None => {
                        fate = "next-hop-unresolvable";
                        break;
                    }
                }
            }
            out.count(&format!("fate_{fate}"));
            if fate == "ttl-expired" {
                out.count("probe_routing_loop_hit_ttl");
            }
            // ---- observed
            let mut seen: Vec<(usize, u8, u64)> = state
                .frames
                .iter()
                .filter(|f| f.protocol == ipv4 && f.bytes.len() >= 36 && payload_id(&f.bytes[28..]) == Some(d.id))
                .map(|f| (f.network, f.bytes[8], f.event))
                .collect();
            seen.sort_by_key(|x| x.2);
            let observed: Vec<(usize, u8)> = seen.iter().map(|x| (x.0, x.1)).collect();
            if observed.len() > 30 {
                out.violate(Violation::new(
                    "ttl",
                    "more-frames-than-ttl",
                    format!("datagram {} appeared in {} frames, its initial time-to-live was 30", d.id, observed.len()),
                ));
            }
            let excused = may_stop_early && observed.len() < expect.len() && expect[..observed.len()] == observed[..];
            if excused {
                out.count("probe_datagram_dropped_by_impatient_resolution");
            }
            if observed != expect && !excused {
                let kind = if observed.len() > expect.len() && observed[..expect.len()] == expect[..] {
                    "extra-forwarding"
                } else if observed.len() < expect.len() && expect[..observed.len()] == observed[..] {
                    "stopped-early"
                } else if observed.iter().map(|x| x.0).eq(expect.iter().map(|x| x.0)) {
                    "wrong-ttl"
                } else {
                    "wrong-path"
                };
                out.violate(Violation::new(
                    "forwarding",
                    kind,
                    format!(
                        "datagram {} from {:?} to {:?} (model: {fate}): expected (network, ttl) sequence {:?}, observed {:?}",
                        d.id, src_ip, d.dst, expect, observed
                    ),
                ));
            }
            // every frame still carries the addresses and payload
            for f in state.frames.iter().filter(|f| f.protocol == ipv4 && f.bytes.len() >= 36 && payload_id(&f.bytes[28..]) == Some(d.id)) {
                if f.bytes[12..16] != src_ip || f.bytes[16..20] != d.dst || f.bytes[28..] != marked_payload(d.id, 40)[..] {
                    out.violate(Violation::new("forwarding", "datagram-changed", format!("datagram {} was altered on its way", d.id)));
                }
            }
            // delivery: to the destination host's application and to nobody else
            let rx: Vec<&sim::Rx> = state.rx.iter().filter(|r| payload_id(&r.payload) == Some(d.id)).collect();
            match deliver_to {
                Some(h) => {
                    let n = rx.iter().filter(|r| r.machine == h).count();
                    if n != 1 && !(excused && n == 0) {
                        out.violate(Violation::new(
                            "delivery",
                            if n == 0 { "missing" } else { "duplicated" },
                            format!("datagram {} for host {h} ({:?}) was delivered to it {n} times", d.id, d.dst),
                        ));
                    }
                    out.count("delivered_across_routers");
                }
                None => {}
            }
            for r in &rx {
                if Some(r.machine) != deliver_to {
                    out.violate(Violation::new(
                        "delivery",
                        "third-party",
                        format!("datagram {} for {:?} was delivered to host {}", d.id, d.dst, r.machine),
                    ));
                }
            }
        }
        // silence: nothing on any wire during the last 60 s of simulated time
        if let Some(last) = state.frames.iter().map(|f| f.time_ms).max() {
            if last + 60_000 > state.final_ms && state.final_ms >= 120_000 {
                out.violate(Violation::new(
                    "silence",
                    "",
                    format!("a frame was still on the wire at {last} ms; the run ended at {} ms", state.final_ms),
                ));
            }
        }
        out.add("datagrams", dgrams.len() as u64);
        out.add("routers", topo.routers.len() as u64);
        let _ = topo.n_subnets;
        out
    }

    fn budget(&self, tier: &Tier) -> (u64, u64) {
        match tier {
            Tier::Quick => (100_000, 50),
            Tier::Thorough => (8_000_000, 1200),
        }
    }

    fn describe(&self) -> ScenarioInfo {
        ScenarioInfo {
            engine: "E2 netsim".into(),
            level: "exploration".into(),
            rule: "one run = 1..4 ArpRouter machines joining subnets in a line, star or ring, 1..3 hosts per subnet, routing tables from shortest paths then perturbed (missing routes, wrong next hops that loop, overriding /32 host routes, default routes), 1..6 datagrams between any hosts / to missing hosts and subnets, under seeded frame delays and task-order perturbation; the expected (network, TTL) sequence comes from the harness's own longest-prefix match; distinct = hash of decisions, frames and deliveries".into(),
            real_components: vec!["ArpRouter, IpTable, Arp (subnet/gateway), Ipv4, Udp, Pci, Network, run_internet".into()],
            stub_components: vec!["host applications (harness)".into()],
            fault_kinds: vec!["frame delay (ARP vs data arrival order)".into(), "task-order perturbation".into()],
            assumptions: vec!["no loss or duplication faults: the statement is about forwarding, not recovery".into()],
        }
    }
}
