//! Supervisor: owns the worker pool, the search loop, triage against the
//! known-findings file, minimisation, replay files and the evidence file.

use crate::common::*;
use crate::scenarios;
use serde_json::{json, Value};
use std::collections::{BTreeMap, HashSet, VecDeque};
use std::io::{BufRead, BufReader, Write};
use std::path::{Path, PathBuf};
use std::process::{Child, ChildStdin, ChildStdout, Command, Stdio};
use std::sync::{mpsc, Arc, Mutex};
use std::time::{Duration, Instant};

/// Root of the verification tree: where known findings are read and evidence
/// and replay files are written. `bin/check` sets VERIF_HOME to its own tree
/// (a `vp run` snapshot keeps its output to itself); default /verif.
pub fn verif_dir() -> String {
    std::env::var("VERIF_HOME").unwrap_or_else(|_| "/verif".to_string())
}

pub struct Proc {
    child: Child,
    stdin: ChildStdin,
    stdout: BufReader<ChildStdout>,
    watch: Arc<Watch>,
}

/// Shared with the watchdog thread of a worker. A worker never waits on real time (every engine
/// computes, the tokio engine on a paused clock), so a worker that is asleep and has consumed no
/// CPU time for `DEADLOCK_AFTER` while a request is open is blocked for good: a deadlock in the
/// code under test. The watchdog takes a stack with gdb (to name the place), kills the worker and
/// leaves a note; the open request then ends as `Died` with that note as its "panic".
#[derive(Default)]
struct Watch {
    busy: std::sync::atomic::AtomicBool,
    gone: std::sync::atomic::AtomicBool,
    hung: Mutex<Option<String>>,
}

const DEADLOCK_AFTER: Duration = Duration::from_secs(30);

fn proc_cpu_and_state(pid: u32) -> Option<(u64, char)> {
    let stat = std::fs::read_to_string(format!("/proc/{pid}/stat")).ok()?;
    // fields after the parenthesised command name
    let rest = &stat[stat.rfind(')')? + 2..];
    let f: Vec<&str> = rest.split_whitespace().collect();
    let state = f.first()?.chars().next()?;
    let utime: u64 = f.get(11)?.parse().ok()?;
    let stime: u64 = f.get(12)?.parse().ok()?;
    Some((utime + stime, state))
}

/// First frames of the blocked worker that belong to the code under test.
fn blocked_where(pid: u32) -> String {
    let out = Command::new("gdb")
        .args(["-p", &pid.to_string(), "-batch", "-ex", "bt 40"])
        .stdin(Stdio::null())
        .stderr(Stdio::null())
        .output();
    let Ok(out) = out else { return "unknown-location".into() };
    let text = String::from_utf8_lossy(&out.stdout);
    let mut frames = vec![];
    for line in text.lines().filter(|l| l.starts_with('#')) {
        // "#3  0x... in <sym> ()"
        let sym = line.split(" in ").nth(1).unwrap_or("").trim_end_matches(" ()").trim();
        // drop the hash suffix ::h0123456789abcdef
        let sym = match sym.rfind("::h") {
            Some(p) if sym.len() - p == 19 => &sym[..p],
            _ => sym,
        };
        if sym.contains("elvis") && !sym.contains("verif::Chaos") {
            frames.push(sym.to_string());
        }
        if frames.len() == 2 {
            break;
        }
    }
    if frames.is_empty() {
        "unknown-location".into()
    } else {
        frames.join(" <- ")
    }
}

fn watchdog(pid: u32, w: Arc<Watch>) {
    use std::sync::atomic::Ordering::SeqCst;
    let mut last_cpu = u64::MAX;
    let mut since = Instant::now();
    loop {
        std::thread::sleep(Duration::from_millis(1000));
        if w.gone.load(SeqCst) {
            return;
        }
        let Some((cpu, state)) = proc_cpu_and_state(pid) else { return };
        if !w.busy.load(SeqCst) || cpu != last_cpu || state != 'S' {
            last_cpu = cpu;
            since = Instant::now();
            continue;
        }
        if since.elapsed() >= DEADLOCK_AFTER {
            let place = blocked_where(pid);
            *w.hung.lock().unwrap() = Some(place);
            unsafe {
                libc_kill(pid as i32, 9);
            }
            return;
        }
    }
}

extern "C" {
    #[link_name = "kill"]
    fn libc_kill(pid: i32, sig: i32) -> i32;
}

pub enum Reply {
    /// the request completed: the JSON of the `R` line
    Done(String),
    /// the worker died; index of the run it had begun, panic info if it said so
    Died {
        begun: Option<u64>,
        panic: Option<PanicInfo>,
    },
}

impl Proc {
    pub fn spawn() -> Proc {
        let exe = std::env::current_exe().expect("current_exe");
        let stderr = if std::env::var("VERIF_DEBUG").is_ok() {
            Stdio::inherit()
        } else {
            Stdio::null()
        };
        let mut child = Command::new(exe)
            .arg("worker")
            .stdin(Stdio::piped())
            .stdout(Stdio::piped())
            .stderr(stderr)
            .spawn()
            .expect("spawn worker");
        let stdin = child.stdin.take().unwrap();
        let stdout = BufReader::new(child.stdout.take().unwrap());
        let watch = Arc::new(Watch::default());
        let (pid, w2) = (child.id(), watch.clone());
        std::thread::spawn(move || watchdog(pid, w2));
        Proc {
            child,
            stdin,
            stdout,
            watch,
        }
    }

    pub fn request(&mut self, req: &Request) -> Reply {
        let line = serde_json::to_string(req).unwrap();
        if writeln!(self.stdin, "{line}").is_err() || self.stdin.flush().is_err() {
            return Reply::Died {
                begun: None,
                panic: None,
            };
        }
        let mut begun = None;
        let mut panic = None;
        self.watch.busy.store(true, std::sync::atomic::Ordering::SeqCst);
        loop {
            let mut buf = String::new();
            match self.stdout.read_line(&mut buf) {
                Ok(0) | Err(_) => {
                    let _ = self.child.wait();
                    self.watch.gone.store(true, std::sync::atomic::Ordering::SeqCst);
                    if let Some(place) = self.watch.hung.lock().unwrap().take() {
                        panic = Some(PanicInfo {
                            file: "<blocked>".into(),
                            line: 0,
                            msg: format!("deadlock: {place}"),
                        });
                    }
                    return Reply::Died { begun, panic };
                }
                Ok(_) => {}
            }
            let buf = buf.trim_end();
            if let Some(rest) = buf.strip_prefix("B ") {
                begun = rest.parse().ok();
                panic = None;
            } else if let Some(rest) = buf.strip_prefix("P ") {
                panic = serde_json::from_str(rest).ok();
            } else if let Some(rest) = buf.strip_prefix("R ") {
                self.watch.busy.store(false, std::sync::atomic::Ordering::SeqCst);
                return Reply::Done(rest.to_string());
            }
        }
    }

    /// Resident set size of the worker in kB (0 when unknown).
    pub fn rss_kb(&self) -> u64 {
        std::fs::read_to_string(format!("/proc/{}/statm", self.child.id()))
            .ok()
            .and_then(|s| s.split_whitespace().nth(1).and_then(|v| v.parse::<u64>().ok()))
            .map(|pages| pages * 4)
            .unwrap_or(0)
    }

    pub fn kill(mut self) {
        self.watch.gone.store(true, std::sync::atomic::Ordering::SeqCst);
        // VERIF_GRACEFUL: let the worker see end of input and exit on its own (coverage builds
        // write their profile at exit)
        if std::env::var("VERIF_GRACEFUL").is_ok() {
            let Proc { mut child, stdin, stdout, .. } = self;
            drop(stdin);
            drop(stdout);
            let _ = child.wait();
            return;
        }
        let _ = self.child.kill();
        let _ = self.child.wait();
    }
}

fn crash_violation(panic: &Option<PanicInfo>) -> Violation {
    match panic {
        Some(p) if p.msg.starts_with("deadlock:") => Violation::new(
            "deadlock",
            p.msg.trim_start_matches("deadlock:").trim(),
            format!(
                "the simulation blocked for good (worker asleep, no CPU time consumed for {} s, virtual time does not wait): stack inside the code under test: {}",
                DEADLOCK_AFTER.as_secs(),
                p.msg.trim_start_matches("deadlock:").trim()
            ),
        ),
        Some(p) if p.msg.starts_with("livelock:") => Violation::new(
            "livelock",
            "poll-budget",
            format!("the simulation never became idle: {}", p.msg),
        ),
        Some(p) => {
            let oracle = if is_harness_file(&p.file) {
                "harness-panic"
            } else {
                "panic"
            };
            Violation::new(
                oracle,
                &panic_class(p),
                format!("panicked at {}:{}: {}", p.file, p.line, p.msg),
            )
        }
        None => Violation::new(
            "worker-died",
            "",
            "worker process died without a panic record".into(),
        ),
    }
}

/// Runs one explicit case in a worker (fresh process if `fresh`).
pub fn run_case(proc_: &mut Option<Proc>, scenario: &str, case: &Value, fresh: bool) -> Outcome {
    if fresh {
        if let Some(p) = proc_.take() {
            p.kill();
        }
    }
    let p = proc_.get_or_insert_with(Proc::spawn);
    match p.request(&Request::Case {
        scenario: scenario.to_string(),
        case: case.clone(),
    }) {
        Reply::Done(s) => {
            let r: CaseResult = serde_json::from_str(&s).expect("case result");
            r.outcome
        }
        Reply::Died { panic, .. } => {
            *proc_ = None;
            let mut o = Outcome::default();
            o.violate(crash_violation(&panic));
            o
        }
    }
}

pub fn run_seed(
    proc_: &mut Option<Proc>,
    scenario: &str,
    seed: u64,
    opts: &RunOpts,
    fresh: bool,
) -> (Option<Value>, Outcome) {
    if fresh {
        if let Some(p) = proc_.take() {
            p.kill();
        }
    }
    let p = proc_.get_or_insert_with(Proc::spawn);
    match p.request(&Request::Seed {
        scenario: scenario.to_string(),
        seed,
        opts: opts.clone(),
    }) {
        Reply::Done(s) => {
            let r: CaseResult = serde_json::from_str(&s).expect("case result");
            (Some(r.case), r.outcome)
        }
        Reply::Died { panic, .. } => {
            *proc_ = None;
            let mut o = Outcome::default();
            o.violate(crash_violation(&panic));
            (None, o)
        }
    }
}

// ---------------------------------------------------------------------------
// known findings

#[derive(Clone, Debug)]
pub struct Known {
    pub property: String,
    pub scenario: String,
    pub class: String,
    pub avoid: String,
    pub replay: String,
    pub what: String,
}

pub fn load_known() -> Vec<Known> {
    let path = format!("{}/known_findings.txt", verif_dir());
    let text = std::fs::read_to_string(path).unwrap_or_default();
    let mut out = vec![];
    for line in text.lines() {
        let line = line.trim();
        let Some(rest) = line.strip_prefix("known:") else {
            continue; // comments and "fixed:" lines suppress nothing
        };
        let mut k = Known {
            property: String::new(),
            scenario: String::new(),
            class: String::new(),
            avoid: String::new(),
            replay: String::new(),
            what: String::new(),
        };
        for field in rest.split(" ;; ") {
            let field = field.trim();
            if let Some(v) = field.strip_prefix("property=") {
                k.property = v.to_string();
            } else if let Some(v) = field.strip_prefix("scenario=") {
                k.scenario = v.to_string();
            } else if let Some(v) = field.strip_prefix("class=") {
                k.class = v.to_string();
            } else if let Some(v) = field.strip_prefix("avoid=") {
                k.avoid = v.to_string();
            } else if let Some(v) = field.strip_prefix("replay=") {
                k.replay = v.to_string();
            } else if let Some(v) = field.strip_prefix("what=") {
                k.what = v.to_string();
            }
        }
        if k.scenario.is_empty() {
            k.scenario = k.property.clone();
        }
        out.push(k);
    }
    out
}

// ---------------------------------------------------------------------------
// search

#[derive(Default)]
pub struct Agg {
    pub runs: u64,
    pub counters: BTreeMap<String, u64>,
    pub sim_ms: u64,
    pub steps: u64,
    pub nontrivial_runs: u64,
    pub diverged: u64,
    pub hashes_all: HashSet<u64>,
    pub hashes_nontrivial: HashSet<u64>,
    pub shapes: HashSet<u64>,
    pub states: HashSet<u64>,
    pub failures: Vec<Failure>,
    pub samples: Vec<Value>,
    pub crashed_ranges: u64,
    /// (index, hash) pairs kept for the determinism re-check
    pub recheck: Vec<(u64, u64)>,
    /// every (index, hash), kept only by the self-test
    pub keep_all: bool,
    pub all: Vec<(u64, u64)>,
}

const HASH_CAP: usize = 4_000_000;

impl Agg {
    fn absorb(&mut self, start: u64, r: RangeResult) {
        self.runs += r.runs;
        for (k, v) in r.counters {
            *self.counters.entry(k).or_insert(0) += v;
        }
        self.sim_ms += r.sim_ms;
        self.steps += r.steps;
        self.nontrivial_runs += r.nontrivial_runs;
        self.diverged += r.diverged;
        for (i, (h, nt)) in r.hashes.iter().enumerate() {
            if self.hashes_all.len() < HASH_CAP {
                self.hashes_all.insert(*h);
            }
            if *nt && self.hashes_nontrivial.len() < HASH_CAP {
                self.hashes_nontrivial.insert(*h);
            }
            let index = start + i as u64;
            if self.keep_all {
                self.all.push((index, *h));
            }
            if index % 97 == 0 && self.recheck.len() < 64 {
                self.recheck.push((index, *h));
            }
        }
        for s in r.shapes {
            if self.shapes.len() < HASH_CAP {
                self.shapes.insert(s);
            }
        }
        for s in r.states {
            if self.states.len() < HASH_CAP {
                self.states.insert(s);
            }
        }
        for f in r.failures {
            if self.failures.len() < 400 {
                self.failures.push(f);
            }
        }
        for s in r.samples {
            if self.samples.len() < 3 {
                self.samples.push(s);
            }
        }
    }
}

struct Job {
    start: u64,
    end: u64,
}

pub fn workers() -> usize {
    std::env::var("VERIF_WORKERS")
        .ok()
        .and_then(|v| v.parse().ok())
        .unwrap_or_else(|| {
            std::thread::available_parallelism()
                .map(|n| n.get())
                .unwrap_or(4)
                .min(16)
        })
}

/// Seeded search over `runs` seeds of one scenario.
pub fn search(
    sc: &'static dyn Scenario,
    base: u64,
    runs: u64,
    wall_cap: Duration,
    opts: &RunOpts,
) -> Agg {
    let chunk = sc.chunk(&opts.tier).max(1);
    let queue: Arc<Mutex<VecDeque<Job>>> = Arc::new(Mutex::new(VecDeque::new()));
    {
        let mut q = queue.lock().unwrap();
        let mut s = 0;
        while s < runs {
            let e = (s + chunk).min(runs);
            q.push_back(Job { start: s, end: e });
            s = e;
        }
    }
    let (tx, rx) = mpsc::channel::<(u64, Result<RangeResult, (Option<u64>, Option<PanicInfo>)>)>();
    let deadline = Instant::now() + wall_cap;
    let n = workers();
    let mut handles = vec![];
    for w in 0..n {
        let queue = queue.clone();
        let tx = tx.clone();
        let opts = opts.clone();
        let name = sc.id().to_string();
        handles.push(std::thread::spawn(move || {
            let mut proc_: Option<Proc> = None;
            let mut first = w == 0;
            // an index whose worker vanished without a panic record is run once more in a fresh
            // worker: a kill from outside (memory pressure) is not the code under test failing
            let mut retried: Option<u64> = None;
            let rss_limit_kb: u64 = std::env::var("VERIF_WORKER_RSS_MB").ok().and_then(|v| v.parse().ok()).unwrap_or(1024) * 1024;
            loop {
                if Instant::now() >= deadline {
                    break;
                }
                let job = { queue.lock().unwrap().pop_front() };
                let Some(mut job) = job else { break };
                // a crashed run splits the job: the rest is re-issued
                loop {
                    let p = proc_.get_or_insert_with(Proc::spawn);
                    let req = Request::Range {
                        scenario: name.clone(),
                        base,
                        start: job.start,
                        end: job.end,
                        opts: opts.clone(),
                        want_samples: if first { 3 } else { 0 },
                    };
                    first = false;
                    match p.request(&req) {
                        Reply::Done(s) => {
                            let r: RangeResult = serde_json::from_str(&s).expect("range result");
                            let _ = tx.send((job.start, Ok(r)));
                            // the simulated machines leak (reference cycles between machine and
                            // protocols): a worker that has grown is replaced
                            if p.rss_kb() > rss_limit_kb {
                                if let Some(p) = proc_.take() {
                                    p.kill();
                                }
                            }
                            break;
                        }
                        Reply::Died { begun: Some(b), panic: None } if retried != Some(b) => {
                            proc_ = None;
                            retried = Some(b);
                            job.start = b;
                        }
                        Reply::Died { begun, panic } => {
                            proc_ = None;
                            let _ = tx.send((job.start, Err((begun, panic))));
                            match begun {
                                Some(b) if b + 1 < job.end => {
                                    job.start = b + 1;
                                }
                                _ => break,
                            }
                        }
                    }
                }
            }
            if let Some(p) = proc_ {
                p.kill();
            }
        }));
    }
    drop(tx);
    let mut agg = Agg {
        keep_all: std::env::var("VERIF_KEEP_HASHES").is_ok(),
        ..Default::default()
    };
    for (start, msg) in rx {
        match msg {
            Ok(r) => agg.absorb(start, r),
            Err((begun, panic)) => {
                agg.crashed_ranges += 1;
                agg.runs += 1;
                let index = begun.unwrap_or(start);
                let seed = crate::rng::mix(base, sc.id(), index);
                agg.failures.push(Failure {
                    index,
                    seed,
                    violation: crash_violation(&panic),
                });
            }
        }
    }
    for h in handles {
        let _ = h.join();
    }
    agg
}

// ---------------------------------------------------------------------------
// minimisation (supervisor driven, works for crashing runs too)

pub fn minimise_remote(
    sc: &'static dyn Scenario,
    case: Value,
    class: &str,
    max_attempts: u64,
    wall: Duration,
) -> (Value, u64) {
    let deadline = Instant::now() + wall;
    let mut proc_: Option<Proc> = None;
    let mut best = case;
    let mut attempts = 0;
    'outer: loop {
        let cands = sc.shrink(&best);
        for cand in cands {
            if attempts >= max_attempts || Instant::now() >= deadline {
                break 'outer;
            }
            attempts += 1;
            let o = run_case(&mut proc_, sc.id(), &cand, false);
            if o.violations.iter().any(|v| v.class == class) {
                best = cand;
                continue 'outer;
            }
        }
        break;
    }
    if let Some(p) = proc_ {
        p.kill();
    }
    (best, attempts)
}

pub fn minimise(sc: &'static dyn Scenario, case: Value, class: &str) -> (Value, u64) {
    if sc.process_isolated() {
        minimise_remote(sc, case, class, 400, Duration::from_secs(60))
    } else {
        let mut p = Proc::spawn();
        let r = p.request(&Request::Minimise {
            scenario: sc.id().to_string(),
            case: case.clone(),
            class: class.to_string(),
            max_attempts: 20_000,
        });
        let out = match r {
            Reply::Done(s) => {
                let r: CaseResult = serde_json::from_str(&s).expect("minimise result");
                let a = r.outcome.counters.get("minimise_attempts").copied().unwrap_or(0);
                (r.case, a)
            }
            Reply::Died { .. } => (case, 0),
        };
        p.kill();
        out
    }
}

// ---------------------------------------------------------------------------
// the check command

pub struct CheckResult {
    pub exit: i32,
}

fn sanitize(s: &str) -> String {
    s.chars()
        .map(|c| if c.is_ascii_alphanumeric() { c } else { '-' })
        .collect::<String>()
        .split('-')
        .filter(|p| !p.is_empty())
        .collect::<Vec<_>>()
        .join("-")
        .chars()
        .take(60)
        .collect()
}

pub fn write_replay(
    dir: &str,
    property: &str,
    scenario: &str,
    v: &Violation,
    seed: u64,
    case: &Value,
) -> PathBuf {
    let name = format!("{}-{}-{:016x}.json", scenario, sanitize(&v.class), seed);
    let path = Path::new(&verif_dir()).join(dir).join(name);
    let body = json!({
        "property": property,
        "scenario": scenario,
        "class": v.class,
        "oracle": v.oracle,
        "detail": v.detail,
        "seed": seed,
        "case": case,
    });
    std::fs::create_dir_all(path.parent().unwrap()).ok();
    std::fs::write(&path, serde_json::to_string_pretty(&body).unwrap()).expect("write replay");
    path
}

pub fn replay_file(path: &Path) -> i32 {
    let text = match std::fs::read_to_string(path) {
        Ok(t) => t,
        Err(e) => {
            eprintln!("cannot read {}: {e}", path.display());
            return 2;
        }
    };
    let v: Value = serde_json::from_str(&text).expect("replay json");
    let scenario = v["scenario"].as_str().unwrap_or_default().to_string();
    let property = v["property"].as_str().unwrap_or_default().to_string();
    let class = v["class"].as_str().unwrap_or_default().to_string();
    let Some(_sc) = scenarios::get(&scenario) else {
        eprintln!("unknown scenario {scenario}");
        return 2;
    };
    let mut p = None;
    let o = run_case(&mut p, &scenario, &v["case"], true);
    if let Some(p) = p {
        p.kill();
    }
    if o.diverged {
        println!("replay diverged: recorded decisions no longer match the code");
    }
    match o.violations.iter().find(|x| x.class == class) {
        Some(x) => {
            println!("reproduced: {} :: {}", x.class, x.detail);
            println!("VIOLATION property={} replay={}", property, path.display());
            1
        }
        None => {
            if let Some(x) = o.primary() {
                println!("different violation: {} :: {}", x.class, x.detail);
                println!("VIOLATION property={} replay={}", property, path.display());
                1
            } else {
                println!("not reproduced: the run holds the property");
                0
            }
        }
    }
}

pub fn check(property: &str, tier: Tier, base_seed: u64) -> i32 {
    let t0 = Instant::now();
    let scs = scenarios::for_property(property);
    if scs.is_empty() {
        eprintln!("no scenario for property {property}");
        return 2;
    }
    let known: Vec<Known> = load_known()
        .into_iter()
        .filter(|k| k.property == property)
        .collect();
    let mut exit = 0;
    let mut new_violations = 0u64;
    let mut known_hits: BTreeMap<String, u64> = BTreeMap::new();
    let mut parts = vec![];
    let mut total_runs = 0u64;
    let mut total_sim_ms = 0u64;
    let mut all_samples: Vec<Value> = vec![];
    let mut distinct_nontrivial = 0u64;
    let mut harness_error = false;
    let mut kf_report = vec![];

    // Phase A: replay the known findings of this property
    for k in &known {
        let Some(sc) = scenarios::get(&k.scenario) else {
            continue;
        };
        let path = Path::new(&verif_dir()).join(&k.replay);
        let reproduced = match std::fs::read_to_string(&path) {
            Ok(text) => {
                let v: Value = serde_json::from_str(&text).unwrap_or(Value::Null);
                let mut p = None;
                let o = run_case(&mut p, sc.id(), &v["case"], true);
                if let Some(p) = p {
                    p.kill();
                }
                o.violations.iter().any(|x| x.class == k.class)
            }
            Err(_) => false,
        };
        if reproduced {
            println!("KNOWN-FINDING: property={} {}", property, k.what);
        }
        kf_report.push(json!({"class": k.class, "what": k.what, "replay": k.replay,
            "still_reproduces": reproduced}));
    }

    // Phase B: the regression corpus - minimised histories of defects that were repaired
    // (explicit operation lists, so they stay meaningful when the generators change).
    // Each must hold the property now; one that fails again is reported like any violation.
    let mut corpus_files = 0u64;
    let mut corpus_failed = vec![];
    {
        let dir = Path::new(&verif_dir()).join("regressions").join(property);
        let mut files: Vec<PathBuf> = std::fs::read_dir(&dir)
            .map(|d| d.filter_map(|e| e.ok().map(|e| e.path())).filter(|p| p.extension().map(|x| x == "json").unwrap_or(false)).collect())
            .unwrap_or_default();
        files.sort();
        let mut p: Option<Proc> = None;
        for f in files {
            let Ok(text) = std::fs::read_to_string(&f) else { continue };
            let v: Value = serde_json::from_str(&text).unwrap_or(Value::Null);
            let Some(sc) = v["scenario"].as_str().and_then(scenarios::get) else { continue };
            corpus_files += 1;
            let o = run_case(&mut p, sc.id(), &v["case"], false);
            if let Some(x) = o.violations.iter().find(|x| x.oracle != "harness-panic" && x.oracle != "worker-died") {
                if known.iter().any(|k| k.class == x.class) {
                    *known_hits.entry(x.class.clone()).or_insert(0) += 1;
                    continue;
                }
                if corpus_failed.iter().any(|c: &Value| c["class"] == x.class) {
                    continue;
                }
                println!("violation: scenario={} class={} regression-corpus :: {}", sc.id(), x.class, x.detail);
                println!("VIOLATION property={} replay={}", property, f.display());
                new_violations += 1;
                exit = 1;
                corpus_failed.push(json!({"class": x.class, "detail": x.detail, "replay": f.display().to_string()}));
            }
        }
        if let Some(p) = p {
            p.kill();
        }
    }

    for sc in scs {
        let info = sc.describe();
        let (runs, cap) = sc.budget(&tier);
        let runs = std::env::var("VERIF_RUNS")
            .ok()
            .and_then(|v| v.parse().ok())
            .unwrap_or(runs);
        let avoid: Vec<String> = known
            .iter()
            .filter(|k| !k.avoid.is_empty())
            .map(|k| k.avoid.clone())
            .collect();
        let opts = RunOpts {
            tier: tier.clone(),
            avoid,
        };
        let t1 = Instant::now();
        let agg = search(sc, base_seed, runs, Duration::from_secs(cap), &opts);
        let wall = t1.elapsed().as_secs_f64();

        // determinism re-check: some runs again, in another process
        let mut nondet = 0;
        {
            let mut p: Option<Proc> = None;
            for (index, h) in agg.recheck.iter().take(24) {
                let seed = crate::rng::mix(base_seed, sc.id(), *index);
                let mut o = opts.clone();
                if index % 2 == 1 {
                    o.avoid.clear();
                }
                let (_c, out) = run_seed(&mut p, sc.id(), seed, &o, false);
                if out.trace_hash != *h && out.violations.is_empty() {
                    nondet += 1;
                    eprintln!(
                        "HARNESS ERROR: nondeterministic run scenario={} index={} seed={}",
                        sc.id(),
                        index,
                        seed
                    );
                }
            }
            if let Some(p) = p {
                p.kill();
            }
        }
        if nondet > 0 {
            harness_error = true;
        }

        // triage: group failures by class
        let mut by_class: BTreeMap<String, Vec<&Failure>> = BTreeMap::new();
        for f in &agg.failures {
            by_class.entry(f.violation.class.clone()).or_default().push(f);
        }
        let mut part_violations = vec![];
        for (class, fails) in &by_class {
            if known.iter().any(|k| &k.class == class) {
                *known_hits.entry(class.clone()).or_insert(0) += fails.len() as u64;
                continue;
            }
            let f = fails.iter().min_by_key(|f| f.index).unwrap();
            if f.violation.oracle == "harness-panic" || f.violation.oracle == "worker-died" {
                eprintln!(
                    "HARNESS ERROR: scenario={} seed={} {} :: {}",
                    sc.id(),
                    f.seed,
                    f.violation.class,
                    f.violation.detail
                );
                harness_error = true;
                continue;
            }
            // confirm from the seed in a fresh process
            let mut o = opts.clone();
            if f.index % 2 == 1 {
                o.avoid.clear();
            }
            let mut p = None;
            let (case, out) = run_seed(&mut p, sc.id(), f.seed, &o, true);
            if let Some(p) = p.take() {
                p.kill();
            }
            let confirmed = out.violations.iter().any(|v| &v.class == class);
            if !confirmed {
                eprintln!(
                    "HARNESS ERROR: violation did not reproduce from its seed: scenario={} seed={} class={}",
                    sc.id(), f.seed, class
                );
                harness_error = true;
                continue;
            }
            // minimise and replay
            let (min_case, attempts) = match case {
                Some(case) => minimise(sc, case, class),
                None => {
                    // the run crashed the worker before the case could be
                    // reported: the seed itself is the replay
                    (json!({"seed": f.seed, "opts": o}), 0)
                }
            };
            let path = write_replay("replays", property, sc.id(), &f.violation, f.seed, &min_case);
            let mut p = None;
            let o2 = run_case(&mut p, sc.id(), &min_case, true);
            if let Some(p) = p {
                p.kill();
            }
            let vio = o2.violations.iter().find(|v| &v.class == class);
            match vio {
                Some(v) => {
                    println!(
                        "violation: scenario={} class={} seed={} minimise_attempts={} :: {}",
                        sc.id(),
                        class,
                        f.seed,
                        attempts,
                        v.detail
                    );
                    println!("VIOLATION property={} replay={}", property, path.display());
                    new_violations += 1;
                    exit = 1;
                    part_violations.push(json!({"class": class, "detail": v.detail,
                        "replay": path.display().to_string(), "count_in_search": fails.len()}));
                }
                None => {
                    eprintln!(
                        "HARNESS ERROR: minimised replay does not reproduce: {}",
                        path.display()
                    );
                    harness_error = true;
                }
            }
        }

        total_runs += agg.runs;
        total_sim_ms += agg.sim_ms;
        distinct_nontrivial += agg.hashes_nontrivial.len() as u64;
        for s in agg.samples.iter().take(2) {
            all_samples.push(json!({"scenario": sc.id(), "case": truncate_json(s, 4000)}));
        }
        parts.push(json!({
            "scenario": sc.id(),
            "engine": info.engine,
            "direct_drive": info.engine == "direct",
            "runs": agg.runs,
            "planned_runs": runs,
            "wall_s": wall,
            "runs_per_hour": if wall > 0.0 { (agg.runs as f64 / wall * 3600.0) as u64 } else { 0 },
            "simulated_seconds": agg.sim_ms as f64 / 1000.0,
            "steps": agg.steps,
            "nontrivial_runs": agg.nontrivial_runs,
            "distinct_traces": agg.hashes_all.len(),
            "distinct_nontrivial_traces": agg.hashes_nontrivial.len(),
            "distinct_interleavings": agg.shapes.len(),
            "distinct_abstract_states": agg.states.len(),
            "counters": agg.counters,
            "failing_runs": agg.failures.len(),
            "worker_crashes": agg.crashed_ranges,
            "determinism_rechecked": agg.recheck.len().min(24),
            "determinism_mismatches": nondet,
            "violations": part_violations,
            "rule": info.rule,
            "real_components": info.real_components,
            "stub_components": info.stub_components,
            "fault_kinds": info.fault_kinds,
            "assumptions": info.assumptions,
        }));
    }

    let first = scenarios::for_property(property)[0].describe();
    let mut assumptions: Vec<String> = vec![];
    for sc in scenarios::for_property(property) {
        for a in sc.describe().assumptions {
            if !assumptions.contains(&a) {
                assumptions.push(a);
            }
        }
    }
    let rule = scenarios::for_property(property)
        .iter()
        .map(|s| format!("[{}] {}", s.id(), s.describe().rule))
        .collect::<Vec<_>>()
        .join(" ");
    let evidence = json!({
        "property_id": property,
        "tier": if tier == Tier::Quick { "quick" } else { "thorough" },
        "seed": base_seed,
        "level": first.level,
        "coverage": {
            "evaluations": total_runs,
            "distinct_nontrivial": distinct_nontrivial,
            "rule": rule,
            "samples": all_samples,
            "simulated_seconds": total_sim_ms as f64 / 1000.0,
            "parts": parts,
            "known_findings": kf_report,
            "regression_corpus": {"files_replayed": corpus_files, "failed": corpus_failed},
            "known_finding_hits_in_search": known_hits,
            "workers": workers(),
        },
        "assumptions": assumptions,
        "wall_s": t0.elapsed().as_secs_f64(),
        "violations": new_violations,
    });
    let epath = format!("{}/evidence/{property}.json", verif_dir());
    std::fs::create_dir_all(format!("{}/evidence", verif_dir())).ok();
    std::fs::write(&epath, serde_json::to_string_pretty(&evidence).unwrap()).expect("evidence");
    println!(
        "property={} tier={:?} runs={} distinct_nontrivial={} violations={} known_hits={} wall={:.1}s",
        property,
        tier,
        total_runs,
        distinct_nontrivial,
        new_violations,
        known_hits.values().sum::<u64>(),
        t0.elapsed().as_secs_f64()
    );
    if harness_error && exit == 0 {
        return 2;
    }
    exit
}

fn truncate_json(v: &Value, max: usize) -> Value {
    let s = serde_json::to_string(v).unwrap_or_default();
    if s.len() <= max {
        v.clone()
    } else {
        json!({"truncated": true, "head": s.chars().take(max).collect::<String>()})
    }
}


/// Determinism self-test: every scenario runs the same seeds with 1, 4 and 16
/// worker processes (different processes, different chunking) and the full
/// trace hashes must agree run by run. Exit 2 on any difference.
pub fn selftest(tier: Tier, base_seed: u64) -> i32 {
    std::env::set_var("VERIF_KEEP_HASHES", "1");
    let n: u64 = if tier == Tier::Quick { 300 } else { 5000 };
    let mut bad = 0;
    let mut report = vec![];
    for sc in scenarios::all() {
        if sc.id() == "C18" && !cfg!(feature = "cksum") {
            continue;
        }
        let opts = RunOpts {
            tier: Tier::Quick,
            avoid: vec![],
        };
        let mut reference: Option<BTreeMap<u64, u64>> = None;
        let mut mism = 0u64;
        for w in [1usize, 4, 16] {
            std::env::set_var("VERIF_WORKERS", w.to_string());
            let agg = search(sc, base_seed, n, Duration::from_secs(600), &opts);
            let map: BTreeMap<u64, u64> = agg.all.iter().copied().collect();
            match &reference {
                None => reference = Some(map),
                Some(r) => {
                    for (k, v) in &map {
                        if r.get(k) != Some(v) {
                            mism += 1;
                        }
                    }
                    if r.len() != map.len() {
                        mism += (r.len() as i64 - map.len() as i64).unsigned_abs();
                    }
                }
            }
        }
        println!("selftest scenario={} seeds={} worker_counts=1,4,16 mismatches={}", sc.id(), n, mism);
        report.push(json!({"scenario": sc.id(), "seeds": n, "worker_counts": [1, 4, 16], "mismatches": mism}));
        if mism > 0 {
            bad += 1;
        }
    }
    std::env::remove_var("VERIF_WORKERS");
    let path = format!("{}/selftest.json", verif_dir());
    let _ = std::fs::write(&path, serde_json::to_string_pretty(&json!({"tier": format!("{tier:?}"), "seed": base_seed, "scenarios": report})).unwrap());
    if bad > 0 {
        eprintln!("HARNESS ERROR: {bad} scenario(s) are not deterministic");
        2
    } else {
        0
    }
}
