//! The one source of randomness of the harness: SplitMix64-seeded
//! xoshiro256**. Everything a run decides is a draw from a `Rng` created from
//! `mix(VERIF_SEED, property, run index)`.

#[derive(Clone, Debug)]
pub struct Rng {
    s: [u64; 4],
}

pub fn splitmix(state: &mut u64) -> u64 {
    *state = state.wrapping_add(0x9E37_79B9_7F4A_7C15);
    let mut z = *state;
    z = (z ^ (z >> 30)).wrapping_mul(0xBF58_476D_1CE4_E5B9);
    z = (z ^ (z >> 27)).wrapping_mul(0x94D0_49BB_1331_11EB);
    z ^ (z >> 31)
}

/// Derives the seed of run `index` of property `prop` from the batch seed.
pub fn mix(base: u64, prop: &str, index: u64) -> u64 {
    let mut h = base ^ 0x5851_F42D_4C95_7F2D;
    for b in prop.bytes() {
        h = (h ^ b as u64).wrapping_mul(0x0000_0100_0000_01B3);
    }
    let mut st = h ^ index.wrapping_mul(0xD6E8_FEB8_6659_FD93);
    splitmix(&mut st)
}

pub fn fnv(h: &mut u64, bytes: &[u8]) {
    for b in bytes {
        *h = (*h ^ *b as u64).wrapping_mul(0x0000_0100_0000_01B3);
    }
}

pub fn fnv_u64(h: &mut u64, v: u64) {
    fnv(h, &v.to_le_bytes());
}

pub const FNV_INIT: u64 = 0xcbf2_9ce4_8422_2325;

impl Rng {
    pub fn new(seed: u64) -> Self {
        let mut st = seed;
        let s = [
            splitmix(&mut st),
            splitmix(&mut st),
            splitmix(&mut st),
            splitmix(&mut st),
        ];
        Self { s }
    }

    pub fn next_u64(&mut self) -> u64 {
        let result = self.s[1].wrapping_mul(5).rotate_left(7).wrapping_mul(9);
        let t = self.s[1] << 17;
        self.s[2] ^= self.s[0];
        self.s[3] ^= self.s[1];
        self.s[1] ^= self.s[2];
        self.s[0] ^= self.s[3];
        self.s[2] ^= t;
        self.s[3] = self.s[3].rotate_left(45);
        result
    }

    /// Uniform in 0..n (n > 0)
    pub fn below(&mut self, n: u64) -> u64 {
        debug_assert!(n > 0);
        // multiply-shift; bias is irrelevant here
        ((self.next_u64() as u128 * n as u128) >> 64) as u64
    }

    pub fn range(&mut self, lo: u64, hi_incl: u64) -> u64 {
        lo + self.below(hi_incl - lo + 1)
    }

    /// true with probability num/den
    pub fn chance(&mut self, num: u64, den: u64) -> bool {
        self.below(den) < num
    }

    pub fn pick<'a, T>(&mut self, items: &'a [T]) -> &'a T {
        &items[self.below(items.len() as u64) as usize]
    }

    pub fn fork(&mut self) -> Rng {
        Rng::new(self.next_u64())
    }
}

/// A recorded / replayable source of decisions (used by the tokio engine where
/// the operation list is not explicit). Value 0 is always the benign choice.
#[derive(Clone, Debug)]
pub struct Chooser {
    rng: Rng,
    /// Values to feed back instead of drawing (replay / shrinking)
    forced: Option<Vec<u64>>,
    pos: usize,
    /// Everything drawn so far
    pub log: Vec<u64>,
    /// Number of draws answered from the forced list
    pub diverged: bool,
}

impl Chooser {
    pub fn new(seed: u64) -> Self {
        Self {
            rng: Rng::new(seed),
            forced: None,
            pos: 0,
            log: Vec::new(),
            diverged: false,
        }
    }

    pub fn replay(seed: u64, forced: Vec<u64>) -> Self {
        Self {
            rng: Rng::new(seed),
            forced: Some(forced),
            pos: 0,
            log: Vec::new(),
            diverged: false,
        }
    }

    /// Uniform in 0..n. In replay mode the logged value is returned (clamped
    /// into range; beyond the end of the log the benign value 0).
    pub fn below(&mut self, n: u64) -> u64 {
        let v = match &self.forced {
            Some(forced) => {
                let v = forced.get(self.pos).copied().unwrap_or(0);
                if v >= n.max(1) {
                    self.diverged = true;
                    0
                } else {
                    v
                }
            }
            None => {
                if n <= 1 {
                    0
                } else {
                    self.rng.below(n)
                }
            }
        };
        self.pos += 1;
        self.log.push(v);
        v
    }

    pub fn chance(&mut self, num: u64, den: u64) -> bool {
        // drawn so that 0 (benign) means "no"
        if num == 0 {
            return false;
        }
        let v = self.below(den);
        v != 0 && v <= num
    }

    pub fn range(&mut self, lo: u64, hi_incl: u64) -> u64 {
        lo + self.below(hi_incl - lo + 1)
    }

    pub fn pick<'a, T>(&mut self, items: &'a [T]) -> &'a T {
        &items[self.below(items.len() as u64) as usize]
    }

    pub fn draws(&self) -> usize {
        self.pos
    }
}
