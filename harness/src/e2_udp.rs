//! C04: UDP datagrams reach exactly the listener bound to their address and port.

use crate::common::*;
use crate::e2::*;
use crate::sim::{self, E2Case, FaultPlan};
use elvis_core::protocols::ipv4::{Ipv4, Ipv4Address, Recipient};
use elvis_core::protocols::{Arp, Endpoint, Endpoints, Pci, Udp};
use elvis_core::{ExitStatus, IpTable, Machine, Message, Network};
use std::any::TypeId;
use std::collections::BTreeMap;
use std::sync::{Arc, Mutex};
use std::time::Duration;

pub struct UdpBind;

#[derive(Clone, Debug)]
struct Bind {
    event: u64,
    machine: usize,
    app: usize,
    addr: [u8; 4],
    port: u16,
    ok: bool,
    late: bool,
}

#[derive(Clone, Debug)]
struct Sent {
    id: u64,
    machine: usize,
    net: usize,
    src: ([u8; 4], u16),
    dst: ([u8; 4], u16),
    len: usize,
    opened: bool,
    sent_ok: bool,
}

fn app_type(n: usize) -> TypeId {
    match n {
        0 => TypeId::of::<App<0>>(),
        1 => TypeId::of::<App<1>>(),
        2 => TypeId::of::<App<2>>(),
        _ => TypeId::of::<App<3>>(),
    }
}

/// Datagram ids of the second round (sent after the bindings made while running).
const SECOND: u64 = 1 << 40;
const WILD: [u8; 4] = [0, 0, 0, 0];
const BCAST: [u8; 4] = [255, 255, 255, 255];
/// Datagrams to 127.0.0.0/8 are handed to the sending machine's own tap and never reach a network.
const LOOP: [u8; 4] = [127, 0, 0, 1];

impl E2Run for UdpBind {
    fn id(&self) -> &'static str {
        "C04"
    }

    fn run(&self, case: &E2Case, _opts: &RunOpts) -> Outcome {
        let binds: Arc<Mutex<Vec<Bind>>> = Arc::new(Mutex::new(vec![]));
        let sents: Arc<Mutex<Vec<Sent>>> = Arc::new(Mutex::new(vec![]));
        // taps[m] = [(net, mac)], mtus[net], arp
        let topo: Arc<Mutex<(Vec<Vec<(usize, u64)>>, Vec<u16>, bool)>> = Arc::new(Mutex::new((vec![], vec![], false)));
        let (b2, s2, t2) = (binds.clone(), sents.clone(), topo.clone());
        let (status, state) = sim::run_sim(case, default_cfg(), move || async move {
            draw_scheduler_knobs();
            let delay_pm = *[0u64, 0, 200, 600].get(sim::choose(4) as usize).unwrap();
            sim::with_state(|s| {
                s.plan = FaultPlan {
                    delay: delay_pm,
                    max_delay_ms: 150,
                    ..Default::default()
                }
            });
            let n_nets = 1 + sim::choose(2) as usize;
            let with_arp = sim::chance(1, 2);
            let mut nets: Vec<Arc<Network>> = vec![];
            let mut mtus = vec![];
            for _ in 0..n_nets {
                let mtu = *[200u16, 576, 1500, 1500].get(sim::choose(4) as usize).unwrap();
                let net = elvis_core::network::NetworkBuilder::new().mtu(mtu).build();
                sim::network_index(Arc::as_ptr(&net) as usize);
                nets.push(net);
                mtus.push(mtu);
            }
            let n_machines = 2 + sim::choose(5) as usize;
            let two_phases = sim::chance(1, 2);
            // addresses: machine m on network n has 10.0.n.(m+1)
            let mut taps: Vec<Vec<(usize, u64)>> = vec![];
            let mut pcis = vec![];
            for m in 0..n_machines {
                let mut my_nets: Vec<usize> = vec![];
                if n_nets == 1 || m == 0 {
                    // machine 0 is on every network
                    my_nets.extend(0..n_nets);
                } else {
                    my_nets.push(sim::choose(n_nets as u64) as usize);
                }
                let pci = Pci::new(my_nets.iter().map(|n| nets[*n].clone()));
                let macs: Vec<u64> = pci.mac_addresses().collect();
                taps.push(my_nets.iter().copied().zip(macs).collect());
                pcis.push(pci);
            }
            *t2.lock().unwrap() = (taps.clone(), mtus.clone(), with_arp);
            let ports = [5000u16, 1, 65535];
            let mut next_id = 1u64;
            let mut machines: Vec<Arc<Machine>> = vec![];
            for (m, pci) in pcis.into_iter().enumerate() {
                let my_ips: Vec<[u8; 4]> = taps[m].iter().map(|(n, _)| [10, 0, *n as u8, m as u8 + 1]).collect();
                let mut table: IpTable<Recipient> = IpTable::new();
                for (slot, ip) in my_ips.iter().enumerate() {
                    table.add_direct(Ipv4Address::new(*ip), Recipient::new(slot as u32, None));
                }
                // bindings of the four applications of this machine
                let mut app_binds: Vec<Vec<([u8; 4], u16)>> = vec![vec![]; 4];
                let n_binds = sim::choose(6) as usize;
                for _ in 0..n_binds {
                    let app = sim::choose(4) as usize;
                    let addr = match sim::choose(7) {
                        0 | 1 => WILD,
                        2 => BCAST,
                        3 => LOOP,
                        _ => my_ips[sim::choose(my_ips.len() as u64) as usize],
                    };
                    let port = ports[sim::choose(3) as usize];
                    app_binds[app].push((addr, port));
                }
                // bindings made while the simulation runs, after the first round of datagrams
                let mut late_binds: Vec<(usize, [u8; 4], u16)> = vec![];
                if two_phases {
                    for _ in 0..sim::choose(4) {
                        let app = sim::choose(4) as usize;
                        let addr = match sim::choose(4) {
                            0 => WILD,
                            _ => my_ips[sim::choose(my_ips.len() as u64) as usize],
                        };
                        late_binds.push((app, addr, ports[sim::choose(3) as usize]));
                    }
                }
                // make sure the machine claims its addresses (ARP needs an owner)
                for ip in &my_ips {
                    if !app_binds.iter().flatten().any(|(a, _)| a == ip) {
                        app_binds[3].push((*ip, 4999));
                    }
                }
                // sends planned for this machine (issued by application 0)
                let mut plan = vec![];
                let n_first = sim::choose(5);
                let n_second = if two_phases { sim::choose(5) } else { 0 };
                for k in 0..n_first + n_second {
                    let slot = sim::choose(my_ips.len() as u64) as usize;
                    let net = taps[m][slot].0;
                    let others: Vec<usize> = (0..n_machines).filter(|x| taps[*x].iter().any(|(n, _)| *n == net)).collect();
                    let dst_ip = match sim::choose(9) {
                        0 => BCAST,
                        1 => [10, 0, net as u8, 200], // nobody
                        // the machine itself through the loopback address (with ARP the open would spend
                        // two seconds asking for 127.0.0.1 and fail: not used there)
                        8 if !with_arp => {
                            if sim::chance(1, 3) {
                                [127, sim::choose(256) as u8, sim::choose(256) as u8, 1 + sim::choose(254) as u8]
                            } else {
                                LOOP
                            }
                        }
                        _ => {
                            let o = others[sim::choose(others.len() as u64) as usize];
                            [10, 0, net as u8, o as u8 + 1]
                        }
                    };
                    let dport = if sim::chance(1, 8) { 5003 } else { ports[sim::choose(3) as usize] };
                    let max = mtus[net] as usize - 28;
                    let len = match sim::choose(6) {
                        0 => 8,
                        1 => max,
                        // (the loopback path has no link and no MTU: the refusal of an oversize frame is C05's subject)
                        2 if dst_ip[0] != 127 => max + 1,
                        _ => 8 + sim::choose(max as u64 - 8) as usize,
                    };
                    let gap = sim::choose(3) * sim::choose(40);
                    plan.push((if k < n_first { next_id } else { next_id | SECOND }, slot, net, dst_ip, dport, len, gap));
                    next_id += 1;
                }
                let mk_pre = |app: usize, list: Vec<([u8; 4], u16)>, binds: Arc<Mutex<Vec<Bind>>>| {
                    move |ctx: &Ctx| {
                        for (addr, port) in list {
                            let r = ctx.machine.protocol::<Udp>().unwrap().listen(
                                app_type(app),
                                Endpoint::new(Ipv4Address::new(addr), port),
                                ctx.machine.clone(),
                            );
                            let event = sim::next_event();
                            binds.lock().unwrap().push(Bind {
                                event,
                                machine: ctx.machine_id,
                                app,
                                addr,
                                port,
                                ok: r.is_ok(),
                                late: false,
                            });
                        }
                    }
                };
                let sents = s2.clone();
                let late_b = b2.clone();
                let src_ips = my_ips.clone();
                let last = m + 1 == n_machines;
                let a0 = App::<0>::new(m)
                    .pre(mk_pre(0, app_binds[0].clone(), b2.clone()))
                    .script(move |ctx: Ctx| async move {
                        let begin = tokio::time::Instant::now();
                        let mut second_started = false;
                        let late = |ctx: &Ctx| {
                            for (app, addr, port) in &late_binds {
                                let r = ctx.machine.protocol::<Udp>().unwrap().listen(app_type(*app), Endpoint::new(Ipv4Address::new(*addr), *port), ctx.machine.clone());
                                let event = sim::next_event();
                                sim::count("probe_bind_while_running");
                                late_b.lock().unwrap().push(Bind {
                                    event,
                                    machine: ctx.machine_id,
                                    app: *app,
                                    addr: *addr,
                                    port: *port,
                                    ok: r.is_ok(),
                                    late: true,
                                });
                            }
                        };
                        for (id, slot, net, dst_ip, dport, len, gap) in plan {
                            if id & SECOND != 0 && !second_started {
                                // every datagram of the first round has long arrived; bind, then wait for the others to have bound
                                tokio::time::sleep_until(begin + Duration::from_secs(10)).await;
                                late(&ctx);
                                tokio::time::sleep_until(begin + Duration::from_secs(11)).await;
                                second_started = true;
                            }
                            if gap > 0 {
                                tokio::time::sleep(Duration::from_millis(gap)).await;
                            }
                            let sport = 6000 + (id as u16 % 100);
                            let eps = Endpoints::new(
                                Endpoint::new(Ipv4Address::new(src_ips[slot]), sport),
                                Endpoint::new(Ipv4Address::new(dst_ip), dport),
                            );
                            let udp = ctx.machine.protocol::<Udp>().unwrap();
                            let session = udp.open_for_sending(TypeId::of::<App<0>>(), eps, ctx.machine.clone()).await;
                            let mut rec = Sent {
                                id,
                                machine: ctx.machine_id,
                                net,
                                src: (src_ips[slot], sport),
                                dst: (dst_ip, dport),
                                len,
                                opened: session.is_ok(),
                                sent_ok: false,
                            };
                            if let Ok(session) = session {
                                let r = session.send(Message::new(marked_payload(id, len)), ctx.machine.clone());
                                rec.sent_ok = r.is_ok();
                            }
                            sim::note_trace(4, id, rec.sent_ok as u64);
                            sents.lock().unwrap().push(rec);
                        }
                        if two_phases && !second_started {
                            tokio::time::sleep_until(begin + Duration::from_secs(10)).await;
                            late(&ctx);
                        }
                        if last {
                            tokio::time::sleep(Duration::from_secs(30)).await;
                            ctx.shutdown.shut_down();
                        }
                    });
                let a1 = App::<1>::new(m).pre(mk_pre(1, app_binds[1].clone(), b2.clone()));
                let a2 = App::<2>::new(m).pre(mk_pre(2, app_binds[2].clone(), b2.clone()));
                let a3 = App::<3>::new(m).pre(mk_pre(3, app_binds[3].clone(), b2.clone()));
                let mut machine = Machine::new()
                    .with(Udp::new())
                    .with(Ipv4::new(table))
                    .with(pci)
                    .with(a0)
                    .with(a1)
                    .with(a2)
                    .with(a3);
                if with_arp {
                    machine = machine.with(Arp::new());
                }
                machines.push(machine.arc());
            }
            run_machines(machines, 200_000).await
        });
        let mut out = Outcome::default();
        finish(&state, &mut out);
        if status != Some(ExitStatus::Exited) {
            out.violate(Violation::new("harness-panic", "unexpected-exit", format!("udp scenario ended with {status:?}")));
            return out;
        }
        let (taps, mtus, with_arp) = topo.lock().unwrap().clone();
        let mut binds = binds.lock().unwrap().clone();
        let sents = sents.lock().unwrap().clone();
        if with_arp {
            out.count("probe_runs_with_arp");
        }
        // binding model: first bind of an endpoint on a machine wins, later ones are refused
        binds.sort_by_key(|b| b.event);
        let mut table: BTreeMap<(usize, [u8; 4], u16), usize> = BTreeMap::new();
        let mut first_round_table = None;
        for b in &binds {
            if b.late && first_round_table.is_none() {
                first_round_table = Some(table.clone());
            }
            let key = (b.machine, b.addr, b.port);
            match table.get(&key) {
                None => {
                    if !b.ok {
                        out.violate(Violation::new("bind", "first-bind-refused", format!("first bind of {:?}:{} on machine {} was refused", b.addr, b.port, b.machine)));
                    }
                    table.insert(key, b.app);
                }
                Some(_) => {
                    out.count("probe_duplicate_bind");
                    if b.ok {
                        out.violate(Violation::new("bind", "duplicate-bind-accepted", format!("a second bind of {:?}:{} on machine {} was accepted", b.addr, b.port, b.machine)));
                    }
                }
            }
        }
        let final_table = table;
        let first_round_table = first_round_table.unwrap_or_else(|| final_table.clone());
        // predicted deliveries from the frames that were actually on the wire
        let mut expected: BTreeMap<(u64, usize, usize), u32> = BTreeMap::new(); // (id, machine, app) -> count
        let mut optional: BTreeMap<(u64, usize, usize), u32> = BTreeMap::new();
        let ipv4_type = TypeId::of::<Ipv4>();
        for f in state.frames.iter().filter(|f| f.protocol == ipv4_type && f.bytes.len() >= 36) {
            let Some(id) = payload_id(&f.bytes[28..]) else { continue };
            let Some(s) = sents.iter().find(|s| s.id == id) else { continue };
            let reached: Vec<usize> = match f.destination {
                None | Some(Network::BROADCAST_MAC) => (0..taps.len())
                    .filter(|m| taps[*m].iter().any(|(n, _)| *n == f.network))
                    .collect(),
                Some(mac) => (0..taps.len())
                    .filter(|m| taps[*m].iter().any(|(n, mc)| *n == f.network && *mc == mac))
                    .collect(),
            };
            let table = if id & SECOND != 0 { &final_table } else { &first_round_table };
            for m in reached {
                let app = table
                    .get(&(m, s.dst.0, s.dst.1))
                    .or_else(|| table.get(&(m, WILD, s.dst.1)));
                if let Some(app) = app {
                    if table.contains_key(&(m, s.dst.0, s.dst.1)) && table.contains_key(&(m, WILD, s.dst.1)) {
                        out.count("probe_exact_beats_wildcard");
                    }
                    let key = (id, m, *app);
                    if m == s.machine {
                        *optional.entry(key).or_insert(0) += f.copies;
                    } else {
                        *expected.entry(key).or_insert(0) += f.copies;
                    }
                } else {
                    out.count("probe_datagram_without_binding_dropped");
                }
            }
        }
        // loopback: exactly the sending machine, exact binding of that very address first, then the wildcard; nothing on a network
        let mut loopback_unbound: Vec<u64> = vec![];
        for s in sents.iter().filter(|s| s.dst.0[0] == 127 && s.opened) {
            out.count("probe_datagram_to_a_loopback_address");
            let table = if s.id & SECOND != 0 { &final_table } else { &first_round_table };
            let app = table.get(&(s.machine, s.dst.0, s.dst.1)).or_else(|| table.get(&(s.machine, WILD, s.dst.1)));
            match app {
                Some(app) => *expected.entry((s.id, s.machine, *app)).or_insert(0) += 1,
                None => {
                    // the loopback path hands the datagram up inside the send call, so the sender may be told
                    // that nobody took it; the statement only asks that it disturbs nothing
                    out.count("probe_datagram_without_binding_dropped");
                    loopback_unbound.push(s.id);
                }
            }
            if state.frames.iter().any(|f| f.protocol == ipv4_type && f.bytes.len() >= 36 && payload_id(&f.bytes[28..]) == Some(s.id)) {
                out.violate(Violation::new("loopback", "frame-on-a-network", format!("datagram {} to {:?} appeared on a network", s.id, s.dst.0)));
            }
        }
        let mut got: BTreeMap<(u64, usize, usize), u32> = BTreeMap::new();
        for r in &state.rx {
            let Some(id) = payload_id(&r.payload) else {
                out.violate(Violation::new("foreign-payload", "", "an application received a datagram nobody sent".into()));
                continue;
            };
            let Some(s) = sents.iter().find(|s| s.id == id) else {
                out.violate(Violation::new("foreign-payload", "", "an application received an unknown datagram".into()));
                continue;
            };
            *got.entry((id, r.machine, r.app)).or_insert(0) += 1;
            if r.payload != marked_payload(id, s.len) {
                out.violate(Violation::new("payload", "changed", format!("datagram {id} arrived with a changed payload")));
            }
            let src_ok = r.ipv4.map(|h| h.source == Ipv4Address::new(s.src.0) && h.destination == Ipv4Address::new(s.dst.0)).unwrap_or(false)
                && r.udp.map(|u| u.source == s.src.1 && u.destination == s.dst.1).unwrap_or(false);
            if !src_ok {
                out.violate(Violation::new(
                    "control",
                    "wrong-source-or-destination",
                    format!("datagram {id} from {:?} to {:?} arrived with ipv4 {:?} udp {:?}", s.src, s.dst, r.ipv4, r.udp),
                ));
            }
        }
        for (k, n) in &expected {
            let g = got.get(k).copied().unwrap_or(0);
            if g != *n {
                out.violate(Violation::new(
                    "delivery",
                    if g < *n { "missing" } else { "duplicated" },
                    format!("datagram {} must reach application {} of machine {} {n} time(s), it did {g} time(s)", k.0, k.2, k.1),
                ));
            }
        }
        for (k, g) in &got {
            let n = expected.get(k).copied().unwrap_or(0) + optional.get(k).copied().unwrap_or(0);
            if *g > n {
                let s = sents.iter().find(|s| s.id == k.0).unwrap();
                let bound: Vec<_> = final_table.iter().filter(|(key, app)| key.0 == k.1 && **app == k.2).map(|(key, _)| (key.1, key.2)).collect();
                out.violate(Violation::new(
                    "delivery",
                    "wrong-listener",
                    format!("datagram {} for {:?}:{} was delivered to application {} of machine {} (bound to {:?}), which the binding rules do not select", k.0, s.dst.0, s.dst.1, k.2, k.1, bound),
                ));
            }
        }
        // oversize payloads never leave the machine
        for s in &sents {
            let max = mtus[s.net] as usize - 28;
            if s.len > max {
                out.count("probe_oversize_datagram");
                let on_wire = state.frames.iter().any(|f| f.bytes.len() >= 36 && payload_id(&f.bytes[28..]) == Some(s.id));
                if s.sent_ok || on_wire {
                    out.violate(Violation::new("mtu", "oversize-datagram-sent", format!("datagram {} of {} bytes on MTU {} was not refused", s.id, s.len, mtus[s.net])));
                }
            } else if s.opened && !s.sent_ok && !loopback_unbound.contains(&s.id) {
                out.violate(Violation::new("send", "fitting-datagram-refused", format!("datagram {} of {} bytes on MTU {} was refused", s.id, s.len, mtus[s.net])));
            }
            if !s.opened {
                out.count("probe_open_failed");
            }
        }
        out.add("datagrams", sents.len() as u64);
        out.add("binds", binds.len() as u64);
        out
    }

    fn budget(&self, tier: &Tier) -> (u64, u64) {
        match tier {
            Tier::Quick => (150_000, 50),
            Tier::Thorough => (10_000_000, 1200),
        }
    }

    fn describe(&self) -> ScenarioInfo {
        ScenarioInfo {
            engine: "E2 netsim".into(),
            level: "exploration".into(),
            rule: "one run = 2..6 machines on 1..2 networks (all with or all without ARP), four recording applications per machine with generated exact / wildcard / limited-broadcast / duplicate bindings, generated datagrams (payload 8..MTU-28 and MTU-27, bound and unbound ports, unclaimed addresses, loopback addresses) under seeded frame delays and task-order perturbation; a 15-line reference model predicts every delivery from the frames seen on the wire; distinct = hash of decisions, frames and deliveries".into(),
            real_components: vec!["Udp, UdpSession, Ipv4, Ipv4Session, Arp, Pci, PciSession, Network, Machine, run_internet".into()],
            stub_components: vec!["recording applications (harness)".into()],
            fault_kinds: vec!["frame delay / reordering".into(), "task-order perturbation (poll deferral)".into()],
            assumptions: vec!["delivery to the sending machine's own applications of its own broadcast frame is neither required nor forbidden".into(), "each machine has at most one tap per network".into()],
        }
    }
}
