//! C15: address allocation never hands the same address to two holders.
//! `Dhcp` is the simulation clause (real DhcpServer/DhcpClient over the stack),
//! `Gen` the direct-drive clause over `IpGenerator` histories.

use crate::common::*;
use crate::e2::*;
use crate::rng::{fnv_u64, Rng, FNV_INIT};
use crate::sim::{self, E2Case, SimState};
use crate::worker::catching;
use elvis::applications::DhcpServer;
use elvis::ip_generator::{IpGenerator, IpRange};
use elvis_core::protocols::arp::subnetting::{Ipv4Mask, Ipv4Net};
use elvis_core::protocols::dhcp::dhcp_client::DhcpClient;
use elvis_core::protocols::dhcp::dhcp_parsing::{DhcpMessage, MessageType};
use elvis_core::protocols::ipv4::{Ipv4, Ipv4Address, Recipient};
use elvis_core::protocols::{Endpoint, Endpoints, Pci, Udp};
use elvis_core::verif::{Copy as FrameCopy, FrameView, Verdict};
use elvis_core::{ExitStatus, IpTable, Machine, Network, Session};
use serde::{Deserialize, Serialize};
use serde_json::Value;
use std::any::TypeId;
use std::collections::{BTreeMap, BTreeSet};
use std::sync::{Arc, Mutex};
use std::time::Duration;

pub struct Dhcp;

const SERVER: [u8; 4] = [10, 0, 0, 1];

#[derive(Clone, Debug)]
struct Lease {
    machine: usize,
    real_client: bool,
    ip: Option<[u8; 4]>,
    released: bool,
}

fn dhcp_msg(t: MessageType, ip: [u8; 4]) -> elvis_core::Message {
    let mut m = DhcpMessage::default();
    m.msg_type = t;
    m.your_ip = Ipv4Address::new(ip);
    m.op = 1;
    DhcpMessage::to_message(m).unwrap()
}

/// Waits (virtual time) until the harness application of `machine` has
/// received a DHCP message of type `t` after event `after`.
async fn wait_for(machine: usize, t: u8, after: u64, budget_ms: u64) -> Option<([u8; 4], u64)> {
    let mut waited = 0;
    loop {
        let found = sim::with_state(|s| {
            s.rx.iter()
                .filter(|r| r.machine == machine && r.event > after)
                .find_map(|r| {
                    let m = DhcpMessage::from_bytes(r.payload.iter().copied()).ok()?;
                    if m.msg_type as u8 == t {
                        Some((m.your_ip.to_bytes(), r.event))
                    } else {
                        None
                    }
                })
        });
        if found.is_some() {
            return found;
        }
        if waited >= budget_ms {
            return None;
        }
        tokio::time::sleep(Duration::from_millis(5)).await;
        waited += 5;
    }
}

impl E2Run for Dhcp {
    fn id(&self) -> &'static str {
        "C15"
    }

    fn run(&self, case: &E2Case, _opts: &RunOpts) -> Outcome {
        let leases: Arc<Mutex<Vec<Lease>>> = Arc::new(Mutex::new(vec![]));
        let macs: Arc<Mutex<Vec<u64>>> = Arc::new(Mutex::new(vec![]));
        let pool_cell: Arc<Mutex<(u32, u32, bool)>> = Arc::new(Mutex::new((0, 0, false)));
        let (l2, m2, p2) = (leases.clone(), macs.clone(), pool_cell.clone());
        let (status, state) = sim::run_sim(case, default_cfg(), move || async move {
            draw_scheduler_knobs();
            let delay_pm = *[0u64, 300, 700].get(sim::choose(3) as usize).unwrap();
            let dup_budget = if sim::chance(1, 3) { 1 + sim::choose(3) } else { 0 };
            let ipv4 = TypeId::of::<Ipv4>();
            let mut dups_left = dup_budget;
            sim::with_state(|s| {
                s.policy = Some(Box::new(move |f: &FrameView, s: &mut SimState, _e: u64| -> Option<Verdict> {
                    if f.protocol != ipv4 {
                        return None;
                    }
                    let mut copies = vec![FrameCopy::default()];
                    if dups_left > 0 {
                        let v = s.draw(1000);
                        if v != 0 && v <= 150 {
                            dups_left -= 1;
                            copies.push(FrameCopy::default());
                        }
                    }
                    for c in copies.iter_mut() {
                        if delay_pm > 0 {
                            let v = s.draw(1000);
                            if v != 0 && v <= delay_pm {
                                c.delay = Duration::from_millis(1 + s.draw(200));
                            }
                        }
                    }
                    Some(Verdict { copies })
                }))
            });
            // a quarter of the runs give the server two interfaces; hardware addresses are
            // unique per network only, so clients on different networks share them. A client is
            // identified by (network << 48 | hardware address) everywhere below.
            let two_nets = sim::chance(1, 4);
            if two_nets {
                sim::count("probe_server_with_two_interfaces");
            }
            let net = Network::basic();
            sim::network_index(Arc::as_ptr(&net) as usize);
            let net_b = Network::basic();
            if two_nets {
                sim::network_index(Arc::as_ptr(&net_b) as usize);
            }
            let nets = [net.clone(), net_b.clone()];
            let pick_net = move |k: usize| -> usize { if two_nets && k % 2 == 1 { 1 } else { 0 } };
            let n_real = sim::choose(13) as usize;
            let n_harness = if n_real == 0 { 1 + sim::choose(3) as usize } else { sim::choose(4) as usize };
            // harness plans: (join time, release after?, rejoin after?)
            let mut hplans = vec![];
            let mut extra = 0u32;
            for _ in 0..n_harness {
                let join = sim::choose(3) * sim::choose(300);
                let release = sim::chance(1, 2);
                let rejoin = release && sim::chance(1, 2);
                if rejoin {
                    extra += 0; // takes the released one back when the pool is exact
                }
                hplans.push((join, release, rejoin));
            }
            // pool: exactly the number of simultaneous holders when nothing is duplicated,
            // otherwise room for the extra offers duplicates cause
            let exact = dup_budget == 0;
            let size = (n_real + n_harness) as u32 + extra + if exact { 0 } else { 4 + 2 * dup_budget as u32 };
            let start = u32::from_be_bytes([10, 0, 1, 1]);
            let end = start + size.max(1) - 1;
            *p2.lock().unwrap() = (start, end, exact);
            let table = || -> IpTable<Recipient> { [("0.0.0.0/0", Recipient::new(0, None))].into_iter().collect() };
            let spci = if two_nets { Pci::new([net.clone(), net_b.clone()]) } else { Pci::new([net.clone()]) };
            m2.lock().unwrap().push(spci.mac_addresses().next().unwrap());
            let server = DhcpServer::new(
                Ipv4Address::new(SERVER),
                IpRange::new(Ipv4Address::from(start), Ipv4Address::from(end)),
            );
            let n_total = n_real + n_harness;
            let mut machines = vec![Machine::new().with(server).with(Udp::new()).with(Ipv4::new(table())).with(spci).arc()];
            let finish = move |ctx: Ctx| async move {
                let done = sim::with_state(|s| {
                    let d = s.counters.entry("clients_done".into()).or_insert(0);
                    *d += 1;
                    *d
                });
                if done == n_total as u64 {
                    tokio::time::sleep(Duration::from_millis(1000)).await;
                    ctx.shutdown.shut_down();
                }
            };
            for c in 0..n_real {
                let ni = pick_net(c);
                let pci = Pci::new([nets[ni].clone()]);
                m2.lock().unwrap().push(((ni as u64) << 48) | pci.mac_addresses().next().unwrap());
                let log = l2.clone();
                let app = App::<0>::new(c + 1).script(move |ctx: Ctx| async move {
                    let dhcp = ctx.machine.protocol::<DhcpClient>().unwrap();
                    let ip = tokio::time::timeout(Duration::from_secs(20), dhcp.ip_address()).await.ok();
                    sim::note_trace(10, c as u64, ip.is_some() as u64);
                    log.lock().unwrap().push(Lease {
                        machine: c + 1,
                        real_client: true,
                        ip: ip.map(|i| i.to_bytes()),
                        released: false,
                    });
                    finish(ctx).await;
                });
                machines.push(
                    Machine::new()
                        .with(DhcpClient::new(Ipv4Address::new(SERVER)))
                        .with(Udp::new())
                        .with(Ipv4::new(table()))
                        .with(pci)
                        .with(app)
                        .arc(),
                );
            }
            for (h, (join, release, rejoin)) in hplans.into_iter().enumerate() {
                let id = n_real + h + 1;
                let ni = pick_net(n_real + h);
                let pci = Pci::new([nets[ni].clone()]);
                m2.lock().unwrap().push(((ni as u64) << 48) | pci.mac_addresses().next().unwrap());
                let log = l2.clone();
                let app = App::<0>::new(id)
                    .pre(|ctx: &Ctx| {
                        let _ = ctx.machine.protocol::<Udp>().unwrap().listen(
                            TypeId::of::<App<0>>(),
                            Endpoint::new(Ipv4Address::new([0, 0, 0, 0]), 68),
                            ctx.machine.clone(),
                        );
                    })
                    .script(move |ctx: Ctx| async move {
                        if join > 0 {
                            tokio::time::sleep(Duration::from_millis(join)).await;
                        }
                        let udp = ctx.machine.protocol::<Udp>().unwrap();
                        let eps = Endpoints::new(
                            Endpoint::new(Ipv4Address::new([0, 0, 0, 0]), 68),
                            Endpoint::new(Ipv4Address::new(SERVER), 67),
                        );
                        let Ok(session) = udp.open_for_sending(TypeId::of::<App<0>>(), eps, ctx.machine.clone()).await else {
                            return;
                        };
                        let mut after = 0u64;
                        let rounds = if rejoin { 2 } else { 1 };
                        for round in 0..rounds {
                            // only offers that arrive after this Discover count (a
                            // duplicate of an earlier offer is not an answer to it)
                            after = after.max(sim::next_event());
                            let _ = session.send(dhcp_msg(MessageType::Discover, [0, 0, 0, 0]), ctx.machine.clone());
                            let offer = wait_for(id, MessageType::Offer as u8, after, 10_000).await;
                            let mut lease = Lease {
                                machine: id,
                                real_client: false,
                                ip: None,
                                released: false,
                            };
                            if let Some((ip, ev)) = offer {
                                after = ev;
                                let _ = session.send(dhcp_msg(MessageType::Request, ip), ctx.machine.clone());
                                if let Some((acked, ev2)) = wait_for(id, MessageType::Ack as u8, after, 10_000).await {
                                    after = ev2;
                                    lease.ip = Some(acked);
                                    // a rejoining client keeps its second lease
                                    if release && !(rejoin && round == 1) {
                                        tokio::time::sleep(Duration::from_millis(50 + sim::choose(300))).await;
                                        let _ = session.send(dhcp_msg(MessageType::Release, acked), ctx.machine.clone());
                                        lease.released = true;
                                        // let the release arrive before anybody asks again
                                        tokio::time::sleep(Duration::from_millis(500)).await;
                                    }
                                }
                            }
                            sim::note_trace(10, id as u64, lease.ip.is_some() as u64);
                            log.lock().unwrap().push(lease);
                            if round == 0 && rejoin {
                                sim::count("probe_rejoin_after_release");
                            }
                        }
                        finish(ctx).await;
                    });
                machines.push(Machine::new().with(Udp::new()).with(Ipv4::new(table())).with(pci).with(app).arc());
            }
            if n_total == 0 {
                return ExitStatus::Exited;
            }
            run_machines(machines, 200_000).await
        });
        let mut out = Outcome::default();
        finish(&state, &mut out);
        out.counters.remove("clients_done");
        if status != Some(ExitStatus::Exited) {
            out.violate(Violation::new("no-progress", "run-did-not-end", format!("the DHCP scenario ended with {status:?}")));
            return out;
        }
        let leases = leases.lock().unwrap().clone();
        let macs = macs.lock().unwrap().clone();
        let (start, end, exact) = *pool_cell.lock().unwrap();
        if exact {
            out.count("probe_exact_pool");
        }
        // wire monitor: Acks delivered to clients, Releases delivered to the server, in event order
        let ipv4 = TypeId::of::<Ipv4>();
        if std::env::var("VERIF_TRACE").is_ok() {
            eprintln!("pool {start}..{end} exact={exact} macs={macs:?}\nleases={leases:?}");
            for f in state.frames.iter().filter(|f| f.protocol == ipv4 && f.bytes.len() > 28) {
                let m = catching(|| DhcpMessage::from_bytes(f.bytes[28..].iter().copied()));
                if let Ok(Ok(m)) = m {
                    eprintln!("  t={} ev={} x{} delays={:?} {:#x}->{:?} {:?} your_ip={:?}", f.time_ms, f.event, f.copies, f.delays,  f.sender, f.destination, m.msg_type as u8, m.your_ip.to_bytes());
                }
            }
        }
        let mut holder: BTreeMap<[u8; 4], u64> = BTreeMap::new();
        let mut acked_to: BTreeMap<u64, Vec<[u8; 4]>> = BTreeMap::new();
        // the server's view: an Ack happens when it is sent, a Release when its
        // (earliest copy) is delivered. The clock has millisecond resolution: when a Release
        // reaches the server in the millisecond in which it sends an Ack for that address, the
        // order is not observable, and the monitor takes the order that is legal if there is
        // one: an Ack to the releasing client first (it answered a delayed duplicate of that
        // client's Request), then the Release, then Acks to other clients.
        let mut server_events: Vec<(u64, u8, u64, [u8; 4], Option<u64>)> = vec![];
        let mut released_at: std::collections::BTreeSet<(u64, [u8; 4], u64)> = Default::default();
        for f in state.frames.iter().filter(|f| f.protocol == ipv4 && f.bytes.len() > 28 && f.bytes[9] == 17 && f.copies > 0) {
            let Ok(Ok(m)) = catching(|| DhcpMessage::from_bytes(f.bytes[28..].iter().copied())) else {
                continue;
            };
            let ip = m.your_ip.to_bytes();
            match m.msg_type {
                MessageType::Ack => server_events.push((f.time_ms, 2, f.event, ip, f.destination.map(|m| ((f.network as u64) << 48) | m))),
                MessageType::Release => {
                    let d = f.delays.iter().copied().min().unwrap_or(0);
                    server_events.push((f.time_ms + d, 1, f.event, ip, None));
                    released_at.insert((f.time_ms + d, ip, ((f.network as u64) << 48) | f.sender));
                }
                _ => {}
            }
        }
        for e in server_events.iter_mut() {
            if e.1 == 2 {
                if let Some(mac) = e.4 {
                    if released_at.contains(&(e.0, e.3, mac)) {
                        e.1 = 0;
                        out.count("probe_release_and_ack_in_the_same_millisecond");
                    }
                }
            }
        }
        server_events.sort();
        for (_t, kind, _ev, ip, dest) in server_events {
            if kind != 1 {
                let Some(mac) = dest else { continue };
                out.count("acks_on_wire");
                if let Some(h) = holder.get(&ip) {
                    if *h != mac {
                        out.violate(Violation::new(
                            "address-leased-twice",
                            "",
                            format!("{ip:?} was acknowledged to the client with MAC {mac:#x} while the client with MAC {h:#x} holds it and no release of it had reached the server"),
                        ));
                    }
                }
                holder.insert(ip, mac);
                acked_to.entry(mac).or_default().push(ip);
                let v = u32::from_be_bytes(ip);
                if v < start || v > end {
                    out.violate(Violation::new("outside-pool", "", format!("{ip:?} is not in the server's pool")));
                }
            } else {
                out.count("releases_on_wire");
                holder.remove(&ip);
            }
        }
        // what the clients learnt
        let mut final_holders: BTreeMap<[u8; 4], usize> = BTreeMap::new();
        for l in &leases {
            match l.ip {
                None => {
                    out.violate(Violation::new(
                        "no-lease",
                        if l.real_client { "real-client" } else { "harness-client" },
                        format!("client on machine {} never learnt an address although the pool ({} addresses) had room", l.machine, end - start + 1),
                    ));
                }
                Some(ip) => {
                    let mac = macs[l.machine];
                    if !acked_to.get(&mac).map(|v| v.contains(&ip)).unwrap_or(false) {
                        out.violate(Violation::new(
                            "client-learnt-wrong-address",
                            "",
                            format!("client on machine {} reports {ip:?}, which was never acknowledged to its MAC", l.machine),
                        ));
                    }
                    if !l.released {
                        if let Some(other) = final_holders.insert(ip, l.machine) {
                            if other != l.machine {
                                out.violate(Violation::new(
                                    "address-leased-twice",
                                    "final-holders",
                                    format!("machines {other} and {} both hold {ip:?} at the end of the run", l.machine),
                                ));
                            }
                        }
                    }
                }
            }
        }
        out.add("leases", leases.len() as u64);
        out
    }

    fn budget(&self, tier: &Tier) -> (u64, u64) {
        match tier {
            Tier::Quick => (150_000, 50),
            Tier::Thorough => (10_000_000, 1200),
        }
    }

    fn describe(&self) -> ScenarioInfo {
        ScenarioInfo {
            engine: "E2 netsim".into(),
            level: "exploration".into(),
            rule: "one run = the real DhcpServer with a pool sized to the number of holders, 0..12 real DhcpClient machines starting at the same instant, 0..3 harness clients that join later, release and rejoin; seeded frame delays up to 200 ms, up to 3 duplicated DHCP frames, task-order perturbation; wire monitor follows Ack/Release frames in event order; distinct = hash of decisions, frames and leases".into(),
            real_components: vec!["DhcpServer (+IpGenerator), DhcpClient, dhcp_parsing, Udp, Ipv4, Pci, Network, run_internet".into()],
            stub_components: vec!["harness DHCP clients that release and rejoin (speak the real codec)".into()],
            fault_kinds: vec!["frame delay / reordering".into(), "bounded frame duplication".into(), "task-order perturbation".into()],
            assumptions: vec!["no loss (neither client nor server retransmits)".into()],
        }
    }
}

// ---------------------------------------------------------------------------
// direct-drive clause: IpGenerator histories against an interval-set model

pub struct Gen;
pub static C15_GEN: Gen = Gen;

#[derive(Serialize, Deserialize, Clone, Debug, PartialEq)]
#[serde(tag = "op")]
pub enum GOp {
    /// block_subnet(ip/bits)
    B { ip: u32, bits: u32 },
    /// fetch_ip
    F,
    /// fetch_net(/bits)
    N { bits: u32 },
    /// return the k-th thing currently held (mod count)
    R { k: u32 },
    /// return ip/bits although it is not held: carried out only when the whole block is free
    /// at that moment (a redundant return, which must change nothing)
    Q { ip: u32, bits: u32 },
    /// constructor none() only: return ip/bits although it never belonged to the generator - this
    /// is how a pool is put together (the description generator does it); carried out only when
    /// the block overlaps nothing that is free or held
    S { ip: u32, bits: u32 },
}

#[derive(Serialize, Deserialize, Clone, Debug)]
pub struct GCase {
    /// 0 = new(range a..=b), 1 = new_sub(a/bits), 2 = new_sub_no_ends(a/bits),
    /// 3 = none() (the pool is what S operations supply), 4 = blocked_out()
    pub ctor: u8,
    pub a: u32,
    pub b: u32,
    pub bits: u32,
    pub ops: Vec<GOp>,
}

/// The blocks IpGenerator::block_reserved_ips documents (IANA special-purpose addresses).
const RESERVED: [([u8; 4], u32); 17] = [
    ([0, 0, 0, 0], 8),
    ([10, 0, 0, 0], 8),
    ([100, 64, 0, 0], 10),
    ([127, 0, 0, 0], 8),
    ([169, 254, 0, 0], 16),
    ([172, 16, 0, 0], 12),
    ([192, 0, 0, 0], 24),
    ([192, 0, 2, 0], 24),
    ([192, 88, 99, 0], 24),
    ([192, 168, 0, 0], 16),
    ([198, 18, 0, 0], 15),
    ([198, 51, 100, 0], 24),
    ([203, 0, 113, 0], 24),
    ([224, 0, 0, 0], 4),
    ([233, 252, 0, 0], 24),
    ([240, 0, 0, 0], 4),
    ([255, 255, 255, 255], 32),
];

fn net(ip: u32, bits: u32) -> Ipv4Net {
    Ipv4Net::new(Ipv4Address::from(ip), Ipv4Mask::from_bitcount(bits))
}

fn net_range(ip: u32, bits: u32) -> (u64, u64) {
    let n = net(ip, bits);
    (n.id().to_u32() as u64, n.broadcast().to_u32() as u64)
}

/// free addresses as sorted disjoint inclusive intervals
#[derive(Default, Clone)]
struct Free(Vec<(u64, u64)>);

impl Free {
    fn remove(&mut self, a: u64, b: u64) {
        let mut out = vec![];
        for &(x, y) in &self.0 {
            if y < a || x > b {
                out.push((x, y));
            } else {
                if x < a {
                    out.push((x, a - 1));
                }
                if y > b {
                    out.push((b + 1, y));
                }
            }
        }
        self.0 = out;
    }

    fn add(&mut self, a: u64, b: u64) {
        self.remove(a, b);
        self.0.push((a, b));
        self.0.sort();
    }

    fn contains_all(&self, a: u64, b: u64) -> bool {
        // merged view
        let mut need = a;
        for &(x, y) in &self.0 {
            if x <= need && need <= y {
                if y >= b {
                    return true;
                }
                need = y + 1;
            }
        }
        false
    }

    fn is_empty(&self) -> bool {
        self.0.is_empty()
    }
}

fn run_gen(case: &GCase) -> Outcome {
    let mut out = Outcome::default();
    let mut h = FNV_INIT;
    let (mut free, pool) = match case.ctor {
        0 => {
            let (a, b) = (case.a.min(case.b) as u64, case.a.max(case.b) as u64);
            (Free(vec![(a, b)]), (a, b))
        }
        1 => {
            let (a, b) = net_range(case.a, case.bits);
            (Free(vec![(a, b)]), (a, b))
        }
        2 => {
            let (a, b) = net_range(case.a, case.bits);
            if b >= a + 2 {
                (Free(vec![(a + 1, b - 1)]), (a, b))
            } else {
                (Free(vec![]), (a, b))
            }
        }
        3 => (Free(vec![]), (0, u32::MAX as u64)),
        _ => {
            let mut f = Free(vec![(0, u32::MAX as u64)]);
            for (ip, bits) in RESERVED {
                let (a, b) = net_range(u32::from_be_bytes(ip), bits);
                f.remove(a, b);
            }
            (f, (0, u32::MAX as u64))
        }
    };
    let built = catching(|| match case.ctor {
        0 => IpGenerator::new(IpRange::new(
            Ipv4Address::from(case.a.min(case.b)),
            Ipv4Address::from(case.a.max(case.b)),
        )),
        1 => IpGenerator::new_sub(net(case.a, case.bits)),
        2 => IpGenerator::new_sub_no_ends(net(case.a, case.bits)),
        3 => IpGenerator::none(),
        _ => IpGenerator::blocked_out(),
    });
    let mut g = match built {
        Ok(g) => g,
        Err(p) => {
            out.violate(Violation::new("panic", &panic_class(&p), format!("constructor panicked: {}", p.msg)));
            return out;
        }
    };
    if pool.0 == 0 {
        out.count("probe_pool_touches_0_0_0_0");
    }
    if pool.1 == u32::MAX as u64 {
        out.count("probe_pool_touches_255_255_255_255");
    }
    let ctor_name = ["new", "new_sub", "new_sub_no_ends", "none", "blocked_out"][case.ctor.min(4) as usize];
    let mut held: Vec<(u64, u64)> = vec![];
    for op in &case.ops {
        out.steps += 1;
        match *op {
            GOp::B { ip, bits } => {
                let n = net(ip, bits);
                if let Err(p) = catching(|| g.block_subnet(n)) {
                    out.violate(Violation::new("panic", &panic_class(&p), format!("block_subnet panicked: {}", p.msg)));
                    break;
                }
                let (a, b) = net_range(ip, bits);
                free.remove(a, b);
                fnv_u64(&mut h, a ^ b << 32);
            }
            GOp::F | GOp::N { .. } => {
                let bits = match *op {
                    GOp::N { bits } => bits,
                    _ => 32,
                };
                let r = catching(|| match *op {
                    GOp::F => g.fetch_ip().map(|ip| Ipv4Net::new_1(ip)),
                    _ => g.fetch_net(Ipv4Mask::from_bitcount(bits)),
                });
                let r = match r {
                    Ok(r) => r,
                    Err(p) => {
                        out.violate(Violation::new("panic", &panic_class(&p), format!("fetch panicked: {}", p.msg)));
                        break;
                    }
                };
                match r {
                    Some(n) => {
                        let (a, b) = (n.id().to_u32() as u64, n.broadcast().to_u32() as u64);
                        fnv_u64(&mut h, a ^ b << 32);
                        out.count("fetched");
                        if n.mask() != Ipv4Mask::from_bitcount(bits) {
                            out.violate(Violation::new("wrong-mask", "", format!("asked for a /{bits}, got {n:?}")));
                        }
                        if !free.contains_all(a, b) {
                            let why = if held.iter().any(|(x, y)| a <= *y && *x <= b) {
                                "still-held"
                            } else if a < pool.0 || b > pool.1 {
                                "outside-pool"
                            } else {
                                "blocked"
                            };
                            out.violate(Violation::new(
                                "handed-out-unavailable",
                                &format!("{why}|{ctor_name}"),
                                format!("{n:?} was handed out but it is not free ({why}); free set {:?}, held {:?}", free.0, held),
                            ));
                            break;
                        }
                        free.remove(a, b);
                        held.push((a, b));
                    }
                    None => {
                        fnv_u64(&mut h, 0);
                        out.count("exhausted");
                        if bits == 32 && !free.is_empty() {
                            out.violate(Violation::new(
                                "false-exhaustion",
                                ctor_name,
                                format!("fetch_ip reported exhaustion although {:?} are free (constructor {ctor_name})", free.0),
                            ));
                            break;
                        }
                    }
                }
            }
            GOp::S { ip, bits } => {
                let (a, b) = net_range(ip, bits);
                if case.ctor != 3 || free.0.iter().any(|(x, y)| a <= *y && *x <= b) || held.iter().any(|(x, y)| a <= *y && *x <= b) {
                    continue;
                }
                let r = catching(|| {
                    if bits == 32 {
                        g.return_ip(Ipv4Address::from(ip))
                    } else {
                        g.return_subnet(net(ip, bits))
                    }
                });
                if let Err(p) = r {
                    out.violate(Violation::new("panic", &panic_class(&p), format!("return into an empty generator panicked: {}", p.msg)));
                    break;
                }
                free.add(a, b);
                out.count("probe_pool_supplied_by_returns");
                fnv_u64(&mut h, a ^ b << 32 ^ 3);
            }
            GOp::Q { ip, bits } => {
                let (a, b) = net_range(ip, bits);
                if !free.contains_all(a, b) {
                    continue;
                }
                let r = catching(|| {
                    if bits == 32 {
                        g.return_ip(Ipv4Address::from(ip))
                    } else {
                        g.return_subnet(net(ip, bits))
                    }
                });
                if let Err(p) = r {
                    out.violate(Violation::new("panic", &panic_class(&p), format!("redundant return panicked: {}", p.msg)));
                    break;
                }
                out.count("probe_redundant_return_of_a_free_block");
                fnv_u64(&mut h, a ^ b << 32 ^ 2);
            }
            GOp::R { k } => {
                if held.is_empty() {
                    continue;
                }
                let (a, b) = held.remove(k as usize % held.len());
                let r = catching(|| {
                    if a == b {
                        g.return_ip(Ipv4Address::from(a as u32))
                    } else {
                        // a held subnet is an aligned block
                        let bits = 32 - ((b - a + 1) as f64).log2().round() as u32;
                        g.return_subnet(net(a as u32, bits))
                    }
                });
                if let Err(p) = r {
                    out.violate(Violation::new("panic", &panic_class(&p), format!("return panicked: {}", p.msg)));
                    break;
                }
                free.add(a, b);
                out.count("returned");
                fnv_u64(&mut h, a ^ b << 32 ^ 1);
            }
        }
    }
    // a generator for a subnet minus its ends offers exactly the host addresses
    if case.ctor == 2 && case.ops.is_empty() && case.bits >= 22 {
        let (a, b) = net_range(case.a, case.bits);
        let want: BTreeSet<u64> = if b >= a + 2 { (a + 1..b).collect() } else { BTreeSet::new() };
        let mut got = BTreeSet::new();
        let mut g2 = g.clone();
        while let Some(ip) = g2.fetch_ip() {
            if !got.insert(ip.to_u32() as u64) || got.len() > 2000 {
                break;
            }
        }
        out.count("probe_no_ends_enumerated");
        if got != want {
            out.violate(Violation::new(
                "hosts-of-subnet",
                "new_sub_no_ends",
                format!("new_sub_no_ends({:?}) offers {} addresses, the subnet has {} host addresses", net(case.a, case.bits), got.len(), want.len()),
            ));
        }
    }
    // what is left, enumerated by the generator's own iterator, is the free set of the model
    let left: u64 = free.0.iter().map(|(a, b)| b - a + 1).sum();
    if out.violations.is_empty() && left <= 3000 {
        let want: Vec<u64> = free.0.iter().flat_map(|(a, b)| *a..=*b).collect();
        let g2 = g.clone();
        match catching(|| g2.into_ip_iter().take(3100).map(|ip| ip.to_u32() as u64).collect::<Vec<u64>>()) {
            Ok(mut got) => {
                out.count("probe_remaining_pool_enumerated");
                let n = got.len();
                got.sort();
                got.dedup();
                if got.len() != n {
                    out.violate(Violation::new("iterator", &format!("address-twice|{ctor_name}"), format!("into_ip_iter yielded {n} addresses, {} distinct", got.len())));
                } else if got != want {
                    out.violate(Violation::new(
                        "iterator",
                        &format!("not-the-free-set|{ctor_name}"),
                        format!("into_ip_iter yields {} addresses, the model has {} free ({:?})", got.len(), want.len(), free.0),
                    ));
                }
            }
            Err(p) => out.violate(Violation::new("panic", &panic_class(&p), format!("into_ip_iter panicked: {}", p.msg))),
        }
    }
    out.trace_hash = h ^ (case.ctor as u64) << 56 ^ case.a as u64;
    out.shape_hash = h;
    out.nontrivial = case.ops.len() > 1;
    out
}

fn gen_gcase(seed: u64, opts: &RunOpts) -> GCase {
    let mut rng = Rng::new(seed);
    let ctor = if opts.avoids("no_new_sub_no_ends") {
        rng.below(2) as u8
    } else {
        match rng.below(8) {
            0 | 1 => 0,
            2 | 3 => 1,
            4 | 5 => 2,
            6 => 3,
            _ => 4,
        }
    };
    let bits = *rng.pick(&[0u32, 8, 16, 20, 24, 24, 26, 28, 29, 30, 30, 31, 32]);
    let a = match rng.below(5) {
        0 => 0,
        1 => u32::MAX - rng.below(300) as u32,
        2 => rng.below(300) as u32,
        _ => rng.next_u64() as u32,
    };
    let b = match rng.below(4) {
        0 => a,
        1 => a.saturating_add(rng.below(20) as u32),
        2 => a.saturating_add(rng.below(5000) as u32),
        _ => u32::MAX,
    };
    let mut case = GCase {
        ctor,
        a,
        b,
        bits,
        ops: vec![],
    };
    if ctor == 2 && rng.chance(1, 2) {
        return case;
    }
    let (lo, hi) = match ctor {
        0 => (a.min(b) as u64, a.max(b) as u64),
        _ => net_range(a, bits),
    };
    let span = hi - lo + 1;
    let n = rng.range(1, 60);
    let redundant = !opts.avoids("no_redundant_returns") && rng.chance(1, 2);
    if ctor == 3 {
        // the pool of an empty generator is what gets returned into it
        for _ in 0..rng.range(1, 4) {
            let nb = *rng.pick(&[32u32, 32, 30, 29, 28, 26, 24]);
            let ip = (lo + rng.below(span.min(1 << 12))) as u32;
            case.ops.push(GOp::S { ip, bits: nb });
        }
    }
    for _ in 0..n {
        if ctor == 3 && rng.chance(1, 10) {
            let nb = *rng.pick(&[32u32, 30, 28, 24]);
            let ip = (lo + rng.below(span.min(1 << 12))) as u32;
            case.ops.push(GOp::S { ip, bits: nb });
            continue;
        }
        let op = match rng.below(if redundant { 12 } else { 10 }) {
            0 | 1 => {
                let nb = *rng.pick(&[32u32, 31, 30, 28, 24]);
                let ip = (lo + rng.below(span.min(1 << 20))) as u32;
                GOp::B { ip, bits: nb }
            }
            10 | 11 => {
                let nb = *rng.pick(&[32u32, 32, 31, 30, 29, 28, 24]);
                let ip = (lo + rng.below(span.min(1 << 12))) as u32;
                GOp::Q { ip, bits: nb }
            }
            2 | 3 | 4 | 5 => GOp::F,
            6 | 7 => GOp::N {
                bits: *rng.pick(&[32u32, 31, 30, 29, 28, 24]),
            },
            _ => GOp::R {
                k: rng.below(16) as u32,
            },
        };
        case.ops.push(op);
    }
    case
}

impl Scenario for Gen {
    fn id(&self) -> &'static str {
        "C15.gen"
    }

    fn run_seed(&self, seed: u64, opts: &RunOpts) -> (Value, Outcome) {
        let case = gen_gcase(seed, opts);
        let out = run_gen(&case);
        (serde_json::to_value(&case).unwrap(), out)
    }

    fn run_case(&self, case: &Value) -> Outcome {
        match serde_json::from_value::<GCase>(case.clone()) {
            Ok(c) => run_gen(&c),
            Err(e) => {
                let mut o = Outcome::default();
                o.violate(Violation::new("harness-panic", "bad-case", format!("{e}")));
                o
            }
        }
    }

    fn shrink(&self, case: &Value) -> Vec<Value> {
        let Ok(c) = serde_json::from_value::<GCase>(case.clone()) else {
            return vec![];
        };
        let mut out = vec![];
        let n = c.ops.len();
        let mut size = n / 2;
        while size >= 1 {
            let mut s = 0;
            while s < n {
                let mut x = c.clone();
                x.ops.drain(s..(s + size).min(n));
                out.push(x);
                s += size;
            }
            if size == 1 {
                break;
            }
            size /= 2;
        }
        out.into_iter().map(|c| serde_json::to_value(&c).unwrap()).collect()
    }

    fn chunk(&self, _tier: &Tier) -> u64 {
        2000
    }

    fn budget(&self, tier: &Tier) -> (u64, u64) {
        match tier {
            Tier::Quick => (1_000_000, 30),
            Tier::Thorough => (100_000_000, 600),
        }
    }

    fn avoid_switches(&self) -> Vec<&'static str> {
        vec!["no_new_sub_no_ends"]
    }

    fn describe(&self) -> ScenarioInfo {
        ScenarioInfo {
            engine: "direct".into(),
            level: "exploration".into(),
            rule: "direct-drive (no schedule, no fault): generated histories of block_subnet / fetch_ip / fetch_net / return over pools built by new, new_sub and new_sub_no_ends (pools touching 0.0.0.0 and 255.255.255.255 included) against an interval-set reference model; non-trivial = more than one operation".into(),
            real_components: vec!["elvis::ip_generator::IpGenerator".into()],
            stub_components: vec![],
            fault_kinds: vec![],
            assumptions: vec!["only things currently held are returned".into(), "fetch_net may report exhaustion when a fitting block spans two separately returned ranges (not asserted)".into()],
        }
    }
}
