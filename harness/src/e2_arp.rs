//! C06: ARP resolves an IP address to its owner's (or the gateway's) MAC.

use crate::common::*;
use crate::e2::*;
use crate::sim::{self, E2Case, SimState};
use elvis_core::protocols::arp::arp_parsing::{ArpPacket, Operation};
use elvis_core::protocols::arp::subnetting::{Ipv4Mask, Ipv4Net, SubnetInfo};
use elvis_core::protocols::ipv4::{Ipv4, Ipv4Address, Recipient};
use elvis_core::protocols::{AddressPair, Arp, Pci};
use elvis_core::verif::{Copy as FrameCopy, FrameView, Verdict};
use elvis_core::{ExitStatus, IpTable, Machine, Network};
use std::any::TypeId;
use std::collections::BTreeMap;
use std::sync::{Arc, Mutex};
use std::time::Duration;

pub struct ArpRes;

#[derive(Clone, Debug)]
struct Res {
    machine: usize,
    local: [u8; 4],
    target: [u8; 4],
    /// address actually looked up (gateway when off-subnet)
    effective: [u8; 4],
    start_ms: u64,
    end_ms: u64,
    result: Option<u64>,
}

#[derive(Clone, Debug)]
struct ArpFrame {
    time_ms: u64,
    request: bool,
    sender_mac: u64,
    sender_ip: [u8; 4],
    target_ip: [u8; 4],
    dest: Option<u64>,
    copies: u32,
    /// arrival time of the first delivered copy
    arrives_ms: u64,
}

impl E2Run for ArpRes {
    fn id(&self) -> &'static str {
        "C06"
    }

    fn run(&self, case: &E2Case, opts: &RunOpts) -> Outcome {
        let results: Arc<Mutex<Vec<Res>>> = Arc::new(Mutex::new(vec![]));
        let arp_frames: Arc<Mutex<Vec<ArpFrame>>> = Arc::new(Mutex::new(vec![]));
        // claims[ip] = (machine, mac on the network)
        let claims: Arc<Mutex<BTreeMap<[u8; 4], (usize, u64)>>> = Arc::new(Mutex::new(BTreeMap::new()));
        // (pattern mode?, requests lost, replies lost) of this run's loss plan
        let pattern: Arc<Mutex<(bool, u32, u32)>> = Arc::new(Mutex::new((false, 0, 0)));
        let p2 = pattern.clone();
        let (r2, f2, c2) = (results.clone(), arp_frames.clone(), claims.clone());
        let thorough = opts.tier == Tier::Thorough;
        let (status, state) = sim::run_sim(case, default_cfg(), move || async move {
            draw_scheduler_knobs();
            // loss pattern: per resolver machine, "first k requests lost, then m replies lost",
            // or (thorough / some runs) arbitrary subsets with delays and duplicates
            let mode = sim::choose(4);
            let k_req = sim::choose(11) as u32;
            let m_rep = sim::choose(11u64.saturating_sub(k_req as u64)) as u32;
            let random_loss_pm = if mode == 3 || thorough { *[0u64, 100, 300, 600].get(sim::choose(4) as usize).unwrap() } else { 0 };
            let delay_pm = if mode >= 2 { 500 } else { 0 };
            // in the random mode some runs hold frames back for longer than the 200 ms between two requests
            let max_delay = if mode == 3 && sim::chance(1, 2) { 700 } else { 90 };
            if max_delay > 90 {
                sim::count("probe_runs_with_delays_beyond_the_resend_interval");
            }
            let dup_pm = if mode == 3 { 150 } else { 0 };
            *p2.lock().unwrap() = (mode <= 2 && random_loss_pm == 0, k_req, m_rep);
            let arp_type = TypeId::of::<Arp>();
            let frames_log = f2.clone();
            let mut req_seen: BTreeMap<u64, u32> = BTreeMap::new();
            let mut rep_seen: BTreeMap<u64, u32> = BTreeMap::new();
            let policy = move |f: &FrameView, s: &mut SimState, _ev: u64| -> Option<Verdict> {
                if f.protocol != arp_type {
                    return None;
                }
                let pkt = ArpPacket::from_bytes(f.bytes.iter().copied()).ok()?;
                let request = pkt.oper == Operation::Request;
                let mut drop = false;
                if mode <= 2 {
                    if request {
                        let n = req_seen.entry(pkt.sender_mac).or_insert(0);
                        *n += 1;
                        drop = *n <= k_req;
                    } else {
                        // replies are counted per resolver they go to
                        let n = rep_seen.entry(pkt.target_mac).or_insert(0);
                        *n += 1;
                        drop = *n <= m_rep;
                    }
                }
                if !drop && random_loss_pm > 0 {
                    let v = s.draw(1000);
                    drop = v != 0 && v <= random_loss_pm;
                }
                let mut copies = vec![];
                if !drop {
                    copies.push(FrameCopy::default());
                    if dup_pm > 0 {
                        let v = s.draw(1000);
                        if v != 0 && v <= dup_pm {
                            copies.push(FrameCopy::default());
                        }
                    }
                    for c in copies.iter_mut() {
                        if delay_pm > 0 {
                            let v = s.draw(1000);
                            if v != 0 && v <= delay_pm {
                                c.delay = Duration::from_millis(1 + s.draw(max_delay));
                            }
                        }
                    }
                }
                let now = s.start.elapsed().as_millis() as u64;
                frames_log.lock().unwrap().push(ArpFrame {
                    arrives_ms: copies.iter().map(|c| now + c.delay.as_millis() as u64).min().unwrap_or(u64::MAX),
                    time_ms: now,
                    request,
                    sender_mac: pkt.sender_mac,
                    sender_ip: pkt.sender_ip.to_bytes(),
                    target_ip: pkt.target_ip.to_bytes(),
                    dest: f.destination,
                    copies: copies.len() as u32,
                });
                Some(Verdict { copies })
            };
            sim::with_state(|s| s.policy = Some(Box::new(policy)));

            let net = Network::basic();
            sim::network_index(Arc::as_ptr(&net) as usize);
            let n_machines = 2 + sim::choose(5) as usize;
            // two subnets inside one link: 10.0.0.x and 10.0.1.x; /24 or /16 masks
            let mut machines: Vec<Arc<Machine>> = vec![];
            let mut all_ips: Vec<(usize, [u8; 4])> = vec![];
            let mut pcis = vec![];
            for m in 0..n_machines {
                let pci = Pci::new([net.clone()]);
                let mac = pci.mac_addresses().next().unwrap();
                let n_ips = 1 + sim::choose(3) as usize;
                for k in 0..n_ips {
                    let ip = [10, 0, sim::choose(2) as u8, (m * 10 + k + 1) as u8];
                    all_ips.push((m, ip));
                    c2.lock().unwrap().insert(ip, (m, mac));
                }
                pcis.push(pci);
            }
            // resolutions: (machine, local ip, target ip, start delay, subnet?)
            let n_groups = 1 + sim::choose(4) as usize;
            let mut plans: Vec<Vec<([u8; 4], [u8; 4], u64, Option<u64>)>> = vec![vec![]; n_machines];
            let mut subnets: Vec<Vec<([u8; 4], u32, [u8; 4])>> = vec![vec![]; n_machines];
            for _ in 0..n_groups {
                let m = sim::choose(n_machines as u64) as usize;
                let mine: Vec<[u8; 4]> = all_ips.iter().filter(|(o, _)| *o == m).map(|(_, ip)| *ip).collect();
                let local = mine[sim::choose(mine.len() as u64) as usize];
                let target = match sim::choose(6) {
                    0 => [10, 0, sim::choose(2) as u8, 250], // nobody claims it
                    _ => all_ips[sim::choose(all_ips.len() as u64) as usize].1,
                };
                let fanout = 1 + if sim::chance(1, 3) { sim::choose(8) } else { 0 };
                let start = sim::choose(3) * sim::choose(300);
                for _ in 0..fanout {
                    plans[m].push((local, target, start, None));
                }
                // fault: a resolver that is abandoned (its future dropped) part-way; the others,
                // concurrent and later ones, must neither hang nor get a different answer
                if sim::chance(1, 8) {
                    let cancel_after = 1 + sim::choose(1500);
                    plans[m].push((local, target, start.saturating_sub(sim::choose(2)), Some(cancel_after)));
                    plans[m].push((local, target, start + 300 + sim::choose(2500), None));
                }
                if sim::chance(1, 3) && !subnets[m].iter().any(|(l, _, _)| *l == local) {
                    let bits = *[24u32, 16, 25].get(sim::choose(3) as usize).unwrap();
                    let gw = match sim::choose(4) {
                        0 => [10, 0, local[2], 254], // unclaimed gateway
                        _ => all_ips[sim::choose(all_ips.len() as u64) as usize].1,
                    };
                    subnets[m].push((local, bits, gw));
                }
            }
            PLANNED.with(|p| p.set(plans.iter().map(|v| v.iter().filter(|x| x.3.is_none()).count() as u64).sum()));
            for (m, pci) in pcis.into_iter().enumerate() {
                let my_ips: Vec<[u8; 4]> = all_ips.iter().filter(|(o, _)| *o == m).map(|(_, ip)| *ip).collect();
                let my_subnets = subnets[m].clone();
                let plan = plans[m].clone();
                let res = r2.clone();
                let last = m + 1 == n_machines;
                let app = App::<0>::new(m)
                    .pre(move |ctx: &Ctx| {
                        let arp = ctx.machine.protocol::<Arp>().unwrap();
                        for ip in &my_ips {
                            arp.listen(Ipv4Address::new(*ip));
                        }
                        for (local, bits, gw) in &my_subnets {
                            arp.set_subnet(
                                Ipv4Address::new(*local),
                                SubnetInfo::new(Ipv4Mask::from_bitcount(*bits), Ipv4Address::new(*gw)),
                            );
                        }
                    })
                    .script(move |ctx: Ctx| async move {
                        let subnets = subnets_of(&ctx);
                        for (local, target, start, cancel_after) in plan {
                            let ctx = ctx.clone();
                            let res = res.clone();
                            let subnets = subnets.clone();
                            elvis_core::verif::tokio::spawn(async move {
                                if start > 0 {
                                    tokio::time::sleep(Duration::from_millis(start)).await;
                                }
                                let arp = ctx.machine.protocol::<Arp>().unwrap();
                                let start_ms = sim::now_ms();
                                if let Some(c) = cancel_after {
                                    let pair = AddressPair {
                                        local: Ipv4Address::new(local),
                                        remote: Ipv4Address::new(target),
                                    };
                                    if tokio::time::timeout(Duration::from_millis(c), arp.resolve(pair, 0, ctx.machine.clone())).await.is_err() {
                                        sim::count("fault_resolver_cancelled");
                                    }
                                    return;
                                }
                                let r = arp
                                    .resolve(
                                        AddressPair {
                                            local: Ipv4Address::new(local),
                                            remote: Ipv4Address::new(target),
                                        },
                                        0,
                                        ctx.machine.clone(),
                                    )
                                    .await;
                                let effective = match subnets.iter().find(|(l, _, _)| *l == local) {
                                    Some((_, bits, gw)) => {
                                        let mask = Ipv4Mask::from_bitcount(*bits);
                                        if Ipv4Net::new(Ipv4Address::new(local), mask).id() != Ipv4Net::new(Ipv4Address::new(target), mask).id() {
                                            *gw
                                        } else {
                                            target
                                        }
                                    }
                                    None => target,
                                };
                                sim::note_trace(5, r.is_ok() as u64, sim::now_ms());
                                res.lock().unwrap().push(Res {
                                    machine: ctx.machine_id,
                                    local,
                                    target,
                                    effective,
                                    start_ms,
                                    end_ms: sim::now_ms(),
                                    result: r.ok(),
                                });
                            });
                        }
                        if last {
                            tokio::time::sleep(Duration::from_secs(8)).await;
                            ctx.shutdown.shut_down();
                        }
                    });
                // the subnets are needed inside the script: stash them in a side table
                SUBNETS.with(|t| t.borrow_mut().insert(m, subnets[m].clone()));
                let table: IpTable<Recipient> = [("0.0.0.0/0", Recipient::new(0, None))].into_iter().collect();
                machines.push(Machine::new().with(Ipv4::new(table)).with(Arp::new()).with(pci).with(app).arc());
            }
            run_machines(machines, 60_000).await
        });
        let mut out = Outcome::default();
        finish(&state, &mut out);
        if std::env::var("VERIF_TRACE").is_ok() {
            eprintln!("claims {:?}\npattern {:?}", claims.lock().unwrap(), pattern.lock().unwrap());
            for r in results.lock().unwrap().iter() {
                eprintln!("res {r:?}");
            }
            for f in arp_frames.lock().unwrap().iter() {
                eprintln!("arp {f:?}");
            }
        }
        if status != Some(ExitStatus::Exited) {
            out.violate(Violation::new("harness-panic", "unexpected-exit", format!("arp scenario ended with {status:?}")));
            return out;
        }
        let results = results.lock().unwrap().clone();
        let frames = arp_frames.lock().unwrap().clone();
        let claims = claims.lock().unwrap().clone();
        for f in &frames {
            if f.copies == 0 {
                out.count(if f.request { "fault_arp_request_lost" } else { "fault_arp_reply_lost" });
                out.nontrivial = true;
            }
            if f.copies > 1 {
                out.count("fault_arp_frame_duplicated");
            }
        }
        for r in &results {
            let owner = claims.get(&r.effective);
            if r.effective != r.target {
                out.count("probe_gateway_substitution");
            }
            match (r.result, owner) {
                (Some(mac), Some((_, want))) => {
                    if mac != *want {
                        out.violate(Violation::new(
                            "wrong-mac",
                            if r.effective != r.target { "gateway" } else { "owner" },
                            format!("machine {} resolved {:?} (looked up {:?}) to {mac:#x}; the machine that claims it has {want:#x}", r.machine, r.target, r.effective),
                        ));
                    }
                    out.count("resolved_ok");
                }
                (Some(mac), None) => {
                    out.violate(Violation::new(
                        "wrong-mac",
                        "unclaimed-address-resolved",
                        format!("machine {} resolved {:?}, which nobody claims, to {mac:#x}", r.machine, r.effective),
                    ));
                }
                (None, Some((om, _))) => {
                    out.count("resolved_err_although_claimed");
                    // the loss plan "first k requests, then m replies" costs one machine at most
                    // k+m exchanges: with k+m <= 9 some exchange of the 10-try budget gets through
                    let (is_pattern, k, m) = *pattern.lock().unwrap();
                    if is_pattern && k + m <= 9 && *om != r.machine {
                        out.violate(Violation::new(
                            "resolution-failed",
                            "within-the-retry-budget",
                            format!("machine {} failed to resolve {:?} although the network only lost its first {k} requests and the first {m} replies: an exchange of the 10-try budget would have got through", r.machine, r.effective),
                        ));
                    }
                    // must succeed when an exchange of this resolver got through in time
                    let my_mac = claims.get(&r.local).map(|c| c.1).unwrap_or(u64::MAX);
                    // a request of this resolver that arrived, and a reply sent after that arrival
                    // which itself arrived before the resolver's 2000 ms were over
                    let first_req_arrival = frames
                        .iter()
                        .filter(|f| f.request && f.sender_mac == my_mac && f.target_ip == r.effective && f.copies > 0 && f.time_ms >= r.start_ms)
                        .map(|f| f.arrives_ms)
                        .min();
                    let req_through = first_req_arrival.map(|t| t <= r.start_ms + 1800).unwrap_or(false);
                    let rep_through = frames.iter().any(|f| {
                        !f.request
                            && f.sender_ip == r.effective
                            && f.dest == Some(my_mac)
                            && f.copies > 0
                            && Some(f.time_ms) >= first_req_arrival
                            && f.arrives_ms <= r.start_ms + 1950
                    });
                    // concurrent resolvers of one address share the table: when an earlier one
                    // gives up it caches the failure for all of them, so only the earliest
                    // resolver of an address on a machine has a retry budget of its own
                    let earliest = results.iter().filter(|x| x.machine == r.machine && x.effective == r.effective).map(|x| x.start_ms).min() == Some(r.start_ms);
                    if req_through && rep_through && *om != r.machine && earliest {
                        out.violate(Violation::new(
                            "resolution-failed",
                            "although-an-exchange-got-through",
                            format!("machine {} failed to resolve {:?} although one of its requests and a reply to it were delivered within the retry period", r.machine, r.effective),
                        ));
                    }
                }
                (None, None) => {
                    out.count("probe_unclaimed_target");
                }
            }
            // bounded failure: an error comes no later than the retry budget
            let took = r.end_ms - r.start_ms;
            if r.result.is_none() && took > Arp::RESEND_DELAY.as_millis() as u64 * Arp::RESEND_TRIES as u64 {
                out.violate(Violation::new(
                    "failure-not-bounded",
                    "",
                    format!("machine {} got the error for {:?} after {took} ms, the retry period is 2000 ms", r.machine, r.effective),
                ));
            }
        }
        // concurrent resolvers of one address on one machine, started together, agree
        let mut groups: BTreeMap<(usize, [u8; 4], u64), Vec<&Res>> = BTreeMap::new();
        for r in &results {
            groups.entry((r.machine, r.effective, r.start_ms)).or_default().push(r);
        }
        for (k, g) in &groups {
            if g.len() > 1 {
                out.count("probe_concurrent_resolvers");
                if g.iter().any(|r| r.result != g[0].result) {
                    out.violate(Violation::new(
                        "resolvers-disagree",
                        "",
                        format!("{} concurrent resolutions of {:?} on machine {} returned different answers: {:?}", g.len(), k.1, k.0, g.iter().map(|r| r.result).collect::<Vec<_>>()),
                    ));
                }
            }
        }
        // nobody hangs: every planned resolution returned
        let expected_n = PLANNED.with(|p| p.replace(0));
        if (results.len() as u64) < expected_n {
            out.violate(Violation::new(
                "resolution-hangs",
                "",
                format!("{} of {expected_n} resolutions never returned within 8 s of simulated time", expected_n - results.len() as u64),
            ));
        }
        out.add("resolutions", results.len() as u64);
        out
    }

    fn budget(&self, tier: &Tier) -> (u64, u64) {
        match tier {
            Tier::Quick => (150_000, 50),
            Tier::Thorough => (10_000_000, 1200),
        }
    }

    fn describe(&self) -> ScenarioInfo {
        ScenarioInfo {
            engine: "E2 netsim".into(),
            level: "fault_enumeration".into(),
            rule: "one run = 2..6 machines with several claimed addresses each, generated subnet masks/gateways, 1..4 groups of up to 9 concurrent Arp::resolve calls, and a loss pattern over ARP frames: 'first k requests lost then m replies lost' for every k+m<=10 (drawn per run; the space has 66 patterns), plus random subsets with delays up to 90 ms and duplicates; non-trivial = at least one ARP frame lost; distinct = hash of decisions, frames and results".into(),
            real_components: vec!["Arp (resolve, demux, ArpTable), arp_parsing, subnetting, Ipv4, Pci, Network, run_internet".into()],
            stub_components: vec!["resolver tasks (harness)".into()],
            fault_kinds: vec!["ARP request loss".into(), "ARP reply loss".into(), "frame delay".into(), "frame duplication".into(), "task-order perturbation".into()],
            assumptions: vec!["every address is claimed by at most one machine".into()],
        }
    }
}

thread_local! {
    static SUBNETS: std::cell::RefCell<BTreeMap<usize, Vec<([u8; 4], u32, [u8; 4])>>> = const { std::cell::RefCell::new(BTreeMap::new()) };
    static PLANNED: std::cell::Cell<u64> = const { std::cell::Cell::new(0) };
}

fn subnets_of(ctx: &Ctx) -> Vec<([u8; 4], u32, [u8; 4])> {
    SUBNETS.with(|t| t.borrow().get(&ctx.machine_id).cloned().unwrap_or_default())
}
