//! C18: with checksums enabled, emitted checksums are valid and corruption is
//! caught. Runs in the second build of the harness (feature `cksum` =
//! elvis-core/compute_checksum).

use crate::common::*;
use crate::e2::*;
use crate::sim::{self, E2Case, SimState};
use elvis_core::protocols::ipv4::{Ipv4, Ipv4Address, Recipient};
use elvis_core::protocols::socket_api::socket::{ProtocolFamily, SocketType};
use elvis_core::protocols::{Endpoint, Endpoints, Pci, SocketAPI, Tcp, Udp};
use elvis_core::verif::{Copy as FrameCopy, FrameView, Verdict};
use elvis_core::{ExitStatus, IpTable, Machine, Message, Network, Session};
use etherparse::PacketBuilder;
use std::any::TypeId;
use std::sync::{Arc, Mutex};
use std::time::Duration;

pub struct Cksum;

const E1: [u8; 4] = [10, 0, 0, 1];
const E2A: [u8; 4] = [10, 0, 0, 2];
const F: [u8; 4] = [10, 0, 0, 9];

/// RFC 1071 one's-complement sum of 16-bit big-endian words (odd length padded with zero).
pub fn ones_sum(parts: &[&[u8]]) -> u16 {
    let mut sum: u32 = 0;
    for p in parts {
        let mut i = 0;
        while i + 1 < p.len() {
            sum += u16::from_be_bytes([p[i], p[i + 1]]) as u32;
            i += 2;
        }
        if i < p.len() {
            sum += (p[i] as u32) << 8;
        }
        // parts are word aligned except possibly the last
    }
    while sum >> 16 != 0 {
        sum = (sum & 0xffff) + (sum >> 16);
    }
    sum as u16
}

/// Verifies an IPv4 packet the RFC way: header sum and transport sum (with
/// pseudo header) including the transmitted checksum must be 0xffff.
pub fn verify_packet(b: &[u8]) -> Result<(), String> {
    if b.len() < 20 || b[0] != 0x45 {
        return Err("not a plain IPv4 header".into());
    }
    if ones_sum(&[&b[..20]]) != 0xffff {
        return Err(format!("IPv4 header checksum {:#06x} does not verify", u16::from_be_bytes([b[10], b[11]])));
    }
    let proto = b[9];
    let seg = &b[20..];
    let len = (seg.len() as u16).to_be_bytes();
    let pseudo = [b[12], b[13], b[14], b[15], b[16], b[17], b[18], b[19], 0, proto, len[0], len[1]];
    match proto {
        17 => {
            if seg.len() < 8 {
                return Err("short UDP".into());
            }
            let field = u16::from_be_bytes([seg[6], seg[7]]);
            if field == 0 {
                return Err("UDP checksum field is zero (not computed)".into());
            }
            if ones_sum(&[&pseudo, seg]) != 0xffff {
                return Err(format!("UDP checksum {field:#06x} does not verify (payload {} bytes)", seg.len() - 8));
            }
        }
        6 => {
            if seg.len() < 20 {
                return Err("short TCP".into());
            }
            if ones_sum(&[&pseudo, seg]) != 0xffff {
                return Err(format!("TCP checksum {:#06x} does not verify (text {} bytes)", u16::from_be_bytes([seg[16], seg[17]]), seg.len() - 20));
            }
        }
        _ => {}
    }
    Ok(())
}

/// Patches the IPv4 identification so that the header checksum becomes 0x0000
/// (sum of the other words 0xffff), recomputing the header checksum.
fn balance_ip_header(b: &mut [u8]) {
    b[4] = 0;
    b[5] = 0;
    b[10] = 0;
    b[11] = 0;
    let s0 = ones_sum(&[&b[..20]]);
    let id = !s0;
    b[4..6].copy_from_slice(&id.to_be_bytes());
    let s = ones_sum(&[&b[..20]]);
    let ck = !s;
    b[10..12].copy_from_slice(&ck.to_be_bytes());
}

fn foreign_udp(sport: u16, dst: [u8; 4], dport: u16, payload: &[u8]) -> Vec<u8> {
    let mut v = Vec::new();
    PacketBuilder::ipv4(F, dst, 30).udp(sport, dport).write(&mut v, payload).unwrap();
    v
}

/// Which layer of the real decoders rejects this packet (`None` = every layer accepts it).
/// A fragment's transport header cannot be decided per frame: `Some("fragment")`.
fn rejecting_layer(b: &[u8]) -> Option<&'static str> {
    use elvis_core::protocols::ipv4::ipv4_parsing::Ipv4Header;
    let ok = crate::worker::catching(|| Ipv4Header::from_bytes(b.iter().copied()).is_ok());
    if !matches!(ok, Ok(true)) {
        return Some("ipv4");
    }
    if b[6] & 0x3f != 0 || b[7] != 0 {
        return Some("fragment");
    }
    let rest = &b[20..];
    let (s, d) = (Ipv4Address::new([b[12], b[13], b[14], b[15]]), Ipv4Address::new([b[16], b[17], b[18], b[19]]));
    let ok = match b[9] {
        17 => crate::worker::catching(|| elvis_core::protocols::udp::UdpHeader::from_bytes_ipv4(rest.iter().copied(), rest.len(), s, d).is_ok()),
        6 => crate::worker::catching(|| elvis_core::protocols::tcp::TcpHeader::from_bytes(rest.iter().copied(), rest.len(), s, d).is_ok()),
        _ => Ok(true),
    };
    if matches!(ok, Ok(true)) {
        None
    } else if b[9] == 17 {
        Some("udp")
    } else {
        Some("tcp")
    }
}

fn foreign_tcp(sport: u16, dst: [u8; 4], dport: u16, seq: u32, ack: Option<u32>, syn: bool, psh: bool, payload: &[u8]) -> Vec<u8> {
    let mut b = PacketBuilder::ipv4(F, dst, 30).tcp(sport, dport, seq, 65535);
    // bits a receiver does not interpret (NS, CWR, ECE) are still covered by the checksum
    if sim::chance(1, 4) {
        sim::count("probe_foreign_segment_with_ecn_bits");
        match sim::choose(3) {
            0 => b = b.ns(),
            1 => b = b.ece(),
            _ => b = b.cwr(),
        }
    }
    if syn {
        b = b.syn();
    }
    if let Some(a) = ack {
        b = b.ack(a);
    }
    if psh {
        b = b.psh();
    }
    let mut v = Vec::new();
    b.write(&mut v, payload).unwrap();
    v
}

/// Chooses the last two payload bytes so that the transport checksum a
/// conforming sender computes is 0x0000 (data sum 0xffff).
fn balanced_payload(build: &dyn Fn(&[u8]) -> Vec<u8>, mut payload: Vec<u8>) -> Vec<u8> {
    if payload.len() < 2 || payload.len() % 2 != 0 {
        return payload;
    }
    let n = payload.len();
    payload[n - 2] = 0;
    payload[n - 1] = 0;
    let pkt = build(&payload);
    let proto = pkt[9];
    let mut seg = pkt[20..].to_vec();
    let ck_off = if proto == 17 { 6 } else { 16 };
    seg[ck_off] = 0;
    seg[ck_off + 1] = 0;
    let len = (seg.len() as u16).to_be_bytes();
    let pseudo = [pkt[12], pkt[13], pkt[14], pkt[15], pkt[16], pkt[17], pkt[18], pkt[19], 0, proto, len[0], len[1]];
    let s0 = ones_sum(&[&pseudo, &seg]);
    let w = !s0;
    payload[n - 2..].copy_from_slice(&w.to_be_bytes());
    payload
}

fn sbyte(tag: u8, off: u64) -> u8 {
    ((off.wrapping_mul(0x9E37_79B9_7F4A_7C15) >> 57) as u8) | (tag << 7)
}

#[derive(Default)]
struct Log {
    udp_sent: Vec<(u64, usize)>,
    foreign_udp_sent: Vec<(u64, Vec<u8>)>,
    stream_written: u64,
    stream_read: Vec<u8>,
    foreign_stream_written: Vec<u8>,
    foreign_stream_read: Vec<u8>,
    foreign_handshake: bool,
    foreign_all_acked: bool,
    zero_checksum_packets: u64,
    reply_written: u64,
    reply_read: Vec<u8>,
    errors: Vec<String>,
}

const REPLY_BASE: u64 = 1 << 32;

impl E2Run for Cksum {
    fn id(&self) -> &'static str {
        "C18"
    }

    fn run(&self, case: &E2Case, opts: &RunOpts) -> Outcome {
        let mut out = Outcome::default();
        // is this the compute_checksum build?
        {
            let h = elvis_core::protocols::udp::verif_export::build_udp_header(Ipv4Address::new(E1), 1, Ipv4Address::new(E2A), 2, [1u8, 2, 3].into_iter(), 3).unwrap();
            if h[6] == 0 && h[7] == 0 {
                out.violate(Violation::new(
                    "harness-panic",
                    "wrong-build",
                    "this binary was built without elvis-core/compute_checksum; run C18 through bin/check".into(),
                ));
                return out;
            }
        }
        let log: Arc<Mutex<Log>> = Arc::new(Mutex::new(Log::default()));
        let macs: Arc<Mutex<Vec<u64>>> = Arc::new(Mutex::new(vec![]));
        let flipped: Arc<Mutex<Vec<Vec<u8>>>> = Arc::new(Mutex::new(vec![]));
        let accepted: Arc<Mutex<Vec<String>>> = Arc::new(Mutex::new(vec![]));
        let (l2, m2, f2, a2) = (log.clone(), macs.clone(), flipped.clone(), accepted.clone());
        let avoid_zero = opts.avoids("no_zero_checksum_from_peer");
        let (status, state) = sim::run_sim(case, default_cfg(), move || async move {
            draw_scheduler_knobs();
            let flip_pm = *[0u64, 50, 150].get(sim::choose(3) as usize).unwrap();
            let ipv4_t = TypeId::of::<Ipv4>();
            let flipped_log = f2.clone();
            let accepted_log = a2.clone();
            sim::with_state(|s| {
                s.policy = Some(Box::new(move |f: &FrameView, s: &mut SimState, _e: u64| -> Option<Verdict> {
                    if f.protocol != ipv4_t || flip_pm == 0 || f.bytes.len() < 28 {
                        return None;
                    }
                    let v = s.draw(1000);
                    if v == 0 || v > flip_pm {
                        return None;
                    }
                    // one or two bit flips the Internet checksum can detect: never in
                    // the same bit position of two words
                    let mut b = f.bytes.clone();
                    let n = b.len() as u64 * 8;
                    // a checksum with one or two bits set: flipping exactly those gives the value
                    // UDP reads as "no checksum" - still an alteration the Internet checksum detects
                    let unfragmented = b[6] & 0x3f == 0 && b[7] == 0;
                    let ck = if b[9] == 17 { 26 } else { 36 };
                    let ones = if unfragmented && b.len() > ck + 1 { (b[ck].count_ones() + b[ck + 1].count_ones()) as u64 } else { 0 };
                    let clear = (b[9] == 17 || b[9] == 6) && (ones == 1 || ones == 2);
                    let mut b1 = s.draw(n);
                    if clear {
                        b[ck] = 0;
                        b[ck + 1] = 0;
                        b1 = u64::MAX;
                        *s.counters.entry("fault_checksum_bits_cleared".into()).or_insert(0) += 1;
                    } else {
                        b[(b1 / 8) as usize] ^= 0x80 >> (b1 % 8);
                    }
                    if !clear && s.draw(2) == 1 {
                        let mut b2 = s.draw(n);
                        if b2 % 16 == b1 % 16 {
                            b2 = (b2 + 1) % n;
                        }
                        b[(b2 / 8) as usize] ^= 0x80 >> (b2 % 8);
                    }
                    flipped_log.lock().unwrap().push(f.bytes.clone());
                    *s.counters.entry("fault_bit_flip".into()).or_insert(0) += 1;
                    // the decoders themselves: an unchanged packet is accepted, so the altered one must be rejected somewhere
                    if rejecting_layer(&f.bytes).is_none() {
                        match rejecting_layer(&b) {
                            None => accepted_log.lock().unwrap().push(format!(
                                "{} with {} is accepted by the IPv4 and transport decoders",
                                describe_ipv4_frame(&f.bytes),
                                if clear { "the set bits of its checksum cleared".to_string() } else { format!("bit {b1} (and possibly one more) flipped") }
                            )),
                            Some(l) => *s.counters.entry(format!("corruption_rejected_by_{l}")).or_insert(0) += 1,
                        }
                    }
                    Some(Verdict {
                        copies: vec![FrameCopy {
                            delay: Duration::ZERO,
                            bytes: Some(b),
                        }],
                    })
                }))
            });
            let net = elvis_core::network::NetworkBuilder::new().mtu(1500).build();
            sim::network_index(Arc::as_ptr(&net) as usize);
            let table = || -> IpTable<Recipient> { [("0.0.0.0/0", Recipient::new(0, None))].into_iter().collect() };
            let mut pcis = vec![];
            for _ in 0..3 {
                let p = Pci::new([net.clone()]);
                m2.lock().unwrap().push(p.mac_addresses().next().unwrap());
                pcis.push(p);
            }
            let mut pcis = pcis.into_iter();
            let n_udp = 3 + sim::choose(10);
            let lens: Vec<usize> = (0..n_udp).map(|_| *[8usize, 9, 10, 11, 64, 101, 1000, 1471, 1472].get(sim::choose(9) as usize).unwrap()).collect();
            // random upper id bits: the checksums of the datagrams take all values over the runs
            let udp_ids: Vec<u64> = (0..n_udp).map(|k| (sim::choose(1 << 40) << 16) | (1000 + k)).collect();
            let chunks: Vec<usize> = (0..1 + sim::choose(6)).map(|_| *[1usize, 2, 3, 100, 999, 1450, 4001].get(sim::choose(7) as usize).unwrap()).collect();
            let n_foreign_udp = 2 + sim::choose(8);
            let foreign_lens: Vec<usize> = (0..n_foreign_udp).map(|_| *[8usize, 9, 10, 33, 64, 1001, 1472].get(sim::choose(7) as usize).unwrap()).collect();
            let foreign_balance: Vec<bool> = (0..n_foreign_udp).map(|_| sim::chance(1, 4)).collect();
            let foreign_chunks: Vec<(usize, bool, bool)> = (0..2 + sim::choose(6))
                .map(|_| (*[2usize, 4, 7, 100, 513, 1400].get(sim::choose(6) as usize).unwrap(), !avoid_zero && sim::chance(1, 3), !avoid_zero && sim::chance(1, 4)))
                .collect();
            // ---- E1: sends datagrams and a stream to E2
            let log1 = l2.clone();
            let e1 = App::<0>::new(0).script(move |ctx: Ctx| async move {
                let udp = ctx.machine.protocol::<Udp>().unwrap();
                let eps = Endpoints::new(Endpoint::new(Ipv4Address::new(E1), 7000), Endpoint::new(Ipv4Address::new(E2A), 7000));
                let session = udp.open_for_sending(TypeId::of::<App<0>>(), eps, ctx.machine.clone()).await;
                let api = ctx.machine.protocol::<SocketAPI>().unwrap();
                let mut sock = api.new_socket(ProtocolFamily::INET, SocketType::Stream, ctx.machine.clone()).await.unwrap();
                let tcp_ok = sock.connect(Endpoint::new(Ipv4Address::new(E2A), 8000)).await.is_ok();
                let mut off = 0u64;
                let mut chunks = chunks.into_iter();
                for (k, len) in lens.into_iter().enumerate() {
                    if let Ok(s) = &session {
                        let id = udp_ids[k];
                        if s.send(Message::new(marked_payload(id, len)), ctx.machine.clone()).is_ok() {
                            log1.lock().unwrap().udp_sent.push((id, len));
                        }
                    }
                    if tcp_ok {
                        if let Some(n) = chunks.next() {
                            let data: Vec<u8> = (0..n as u64).map(|i| sbyte(0, off + i)).collect();
                            if sock.send(data).is_ok() {
                                off += n as u64;
                                log1.lock().unwrap().stream_written = off;
                            }
                        }
                    }
                    // the other direction of the same connection: what E2 sends back
                    if tcp_ok {
                        if let Ok(Ok(b)) = tokio::time::timeout(Duration::from_millis(120), sock.recv(4096)).await {
                            log1.lock().unwrap().reply_read.extend_from_slice(&b);
                            continue;
                        }
                    } else {
                        tokio::time::sleep(Duration::from_millis(120)).await;
                    }
                }
                if tcp_ok {
                    while let Ok(Ok(b)) = tokio::time::timeout(Duration::from_secs(100), sock.recv(4096)).await {
                        log1.lock().unwrap().reply_read.extend_from_slice(&b);
                    }
                } else {
                    tokio::time::sleep(Duration::from_secs(100)).await;
                }
                drop(sock);
            });
            // ---- E2: records datagrams, accepts two streams (E1's and the foreign peer's)
            let log2b = l2.clone();
            let e2 = App::<0>::new(1)
                .pre(|ctx: &Ctx| {
                    let _ = ctx.machine.protocol::<Udp>().unwrap().listen(TypeId::of::<App<0>>(), Endpoint::new(Ipv4Address::new(E2A), 7000), ctx.machine.clone());
                })
                .script(move |ctx: Ctx| async move {
                    let api = ctx.machine.protocol::<SocketAPI>().unwrap();
                    let mut l = api.new_socket(ProtocolFamily::INET, SocketType::Stream, ctx.machine.clone()).await.unwrap();
                    if l.bind(Endpoint::new(Ipv4Address::new(E2A), 8000)).is_err() || l.listen(4).is_err() {
                        log2b.lock().unwrap().errors.push("listen failed".into());
                        return;
                    }
                    let mut readers = vec![];
                    for _ in 0..2 {
                        let Ok(Ok(mut s)) = tokio::time::timeout(Duration::from_secs(8), l.accept()).await else {
                            break;
                        };
                        let lg = log2b.clone();
                        readers.push(elvis_core::verif::tokio::spawn(async move {
                            // whose connection this is shows in the first byte of its stream
                            let mut foreign: Option<bool> = None;
                            loop {
                                match tokio::time::timeout(Duration::from_secs(4), s.recv(4096)).await {
                                    Ok(Ok(b)) => {
                                        let mut g = lg.lock().unwrap();
                                        if foreign.is_none() {
                                            foreign = b.first().map(|x| x >> 7 == 1);
                                        }
                                        if foreign == Some(true) {
                                            g.foreign_stream_read.extend_from_slice(&b);
                                        } else {
                                            g.stream_read.extend_from_slice(&b);
                                            // data flows back on the Elvis connection too, so that
                                            // acknowledgment numbers move between transmissions
                                            let n = b.len().min(1200) as u64;
                                            let off = g.reply_written;
                                            let data: Vec<u8> = (0..n).map(|i| sbyte(0, REPLY_BASE + off + i)).collect();
                                            if s.send(data).is_ok() {
                                                g.reply_written += n;
                                            }
                                        }
                                    }
                                    _ => break,
                                }
                            }
                        }));
                    }
                    for r in readers {
                        let _ = r.await;
                    }
                    ctx.shutdown.shut_down();
                });
            // ---- F: the foreign stack (etherparse + RFC 1071), raw frames
            let log3 = l2.clone();
            let fmac_idx = 2usize;
            let macs_v = m2.lock().unwrap().clone();
            let f = App::<0>::new(2).script(move |ctx: Ctx| async move {
                let pci = ctx.machine.protocol::<Pci>().unwrap().open(0);
                let send = |bytes: Vec<u8>| {
                    let _ = pci.send_pci(Message::new(bytes), None, TypeId::of::<Ipv4>());
                };
                let _ = fmac_idx;
                // datagrams
                for (k, len) in foreign_lens.iter().enumerate() {
                    let id = 5000 + k as u64;
                    let mut p = marked_payload(id, *len);
                    if foreign_balance[k] && !avoid_zero {
                        p = balanced_payload(&|pl| foreign_udp(4000, E2A, 7000, pl), p);
                    }
                    let mut pkt = foreign_udp(4000, E2A, 7000, &p);
                    if foreign_balance[k] && !avoid_zero && k % 2 == 0 {
                        balance_ip_header(&mut pkt);
                        log3.lock().unwrap().zero_checksum_packets += 1;
                    }
                    log3.lock().unwrap().foreign_udp_sent.push((id, p));
                    send(pkt);
                    tokio::time::sleep(Duration::from_millis(90)).await;
                }
                // a TCP connection, stop and wait
                let sport = 4100u16;
                let iss: u32 = 0x1000_0000;
                let e2_mac = macs_v[1];
                let find = |pred: &dyn Fn(&[u8]) -> bool, after: u64| -> Option<(Vec<u8>, u64)> {
                    sim::with_state(|s| {
                        s.frames
                            .iter()
                            .filter(|fr| fr.event > after && fr.sender == e2_mac && fr.bytes.len() >= 40 && fr.bytes[9] == 6 && fr.bytes[16..20] == F && fr.copies > 0 && !fr.corrupted)
                            .find(|fr| pred(&fr.bytes))
                            .map(|fr| (fr.bytes.clone(), fr.event))
                    })
                };
                let mut irs = None;
                for _ in 0..20 {
                    send(foreign_tcp(sport, E2A, 8000, iss, None, true, false, &[]));
                    tokio::time::sleep(Duration::from_millis(150)).await;
                    if let Some((b, _)) = find(&|b| b[33] & 0x12 == 0x12 && u32::from_be_bytes(b[28..32].try_into().unwrap()) == iss.wrapping_add(1), 0) {
                        irs = Some(u32::from_be_bytes(b[24..28].try_into().unwrap()));
                        break;
                    }
                }
                let Some(irs) = irs else {
                    return;
                };
                log3.lock().unwrap().foreign_handshake = true;
                let mut seq = iss.wrapping_add(1);
                let ack = irs.wrapping_add(1);
                send(foreign_tcp(sport, E2A, 8000, seq, Some(ack), false, false, &[]));
                let mut off = 0u64;
                let mut all = true;
                for (k, (n, balance, balance_ip)) in foreign_chunks.into_iter().enumerate() {
                    // the first bytes of the stream identify it: no balance bytes there
                    let balance = balance && k > 0;
                    let mut data: Vec<u8> = (0..n as u64).map(|i| sbyte(1, off + i)).collect();
                    if balance {
                        data = balanced_payload(&|pl| foreign_tcp(sport, E2A, 8000, seq, Some(ack), false, true, pl), data);
                        // keep the origin tag on the balance bytes' neighbours only: the last two bytes may be anything
                    }
                    let mut pkt = foreign_tcp(sport, E2A, 8000, seq, Some(ack), false, true, &data);
                    if balance_ip {
                        balance_ip_header(&mut pkt);
                    }
                    if balance || balance_ip {
                        log3.lock().unwrap().zero_checksum_packets += 1;
                    }
                    let want = seq.wrapping_add(n as u32);
                    let mut acked = false;
                    for _ in 0..25 {
                        send(pkt.clone());
                        tokio::time::sleep(Duration::from_millis(120)).await;
                        if find(&|b| b[33] & 0x10 != 0 && u32::from_be_bytes(b[28..32].try_into().unwrap()) == want, 0).is_some() {
                            acked = true;
                            break;
                        }
                    }
                    if !acked {
                        all = false;
                        break;
                    }
                    log3.lock().unwrap().foreign_stream_written.extend_from_slice(&data);
                    seq = want;
                    off += n as u64;
                }
                log3.lock().unwrap().foreign_all_acked = all;
            });
            let host = |ip: [u8; 4], pci: Pci| {
                Machine::new()
                    .with(SocketAPI::new(Some(Ipv4Address::new(ip))))
                    .with(Tcp::new())
                    .with(Udp::new())
                    .with(Ipv4::new(table()))
                    .with(pci)
            };
            let machines = vec![
                host(E1, pcis.next().unwrap()).with(e1).arc(),
                host(E2A, pcis.next().unwrap()).with(e2).arc(),
                Machine::new().with(pcis.next().unwrap()).with(f).arc(),
            ];
            run_machines(machines, 90_000).await
        });
        finish(&state, &mut out);
        let log = log.lock().unwrap();
        let macs = macs.lock().unwrap().clone();
        if status != Some(ExitStatus::Exited) {
            out.violate(Violation::new("no-progress", "run-did-not-end", format!("checksum scenario ended with {status:?} errors {:?}", log.errors)));
            return out;
        }
        // (1) everything an Elvis machine emits verifies under RFC 1071
        let ipv4 = TypeId::of::<Ipv4>();
        for f in state.frames.iter().filter(|f| f.protocol == ipv4 && (f.sender == macs[0] || f.sender == macs[1])) {
            out.count("emitted_packets_verified");
            if f.bytes.len() % 2 == 1 {
                out.count("probe_odd_length_packet");
            }
            if let Err(e) = verify_packet(&f.bytes) {
                out.violate(Violation::new(
                    "emitted-checksum-invalid",
                    if f.bytes.get(9) == Some(&17) { "udp" } else if f.bytes.get(9) == Some(&6) { "tcp" } else { "ipv4" },
                    format!("a packet emitted by machine with MAC {:#x} fails the independent RFC 1071 check: {e}", f.sender),
                ));
            }
        }
        if std::env::var("VERIF_TRACE").is_ok() {
            for f in state.frames.iter().filter(|f| f.protocol == ipv4) {
                eprintln!("  t={} ev={} x{} corrupted={} {:#x} {} ipck={:02x}{:02x} tck={:02x?} verify={:?}", f.time_ms, f.event, f.copies, f.corrupted, f.sender, describe_ipv4_frame(&f.bytes), f.bytes[10], f.bytes[11], if f.bytes[9] == 17 { &f.bytes[26..28] } else { &f.bytes[36..38] }, verify_packet(&f.bytes));
            }
            for b in flipped.lock().unwrap().iter() {
                eprintln!("  flipped original: {}", describe_ipv4_frame(b));
            }
            for r in state.rx.iter() {
                eprintln!("  rx m={} len={} id={:?}", r.machine, r.payload.len(), payload_id(&r.payload));
            }
        }
        // (2) interop: what the conforming foreign stack sent is delivered
        let flipped = flipped.lock().unwrap();
        let was_flipped = |p: &[u8]| flipped.iter().any(|b| b.len() >= 28 && b[9] == 17 && &b[28..] == p);
        out.add("probe_foreign_packets_with_zero_checksum", log.zero_checksum_packets);
        for (id, p) in &log.foreign_udp_sent {
            let n = state.rx.iter().filter(|r| r.machine == 1 && r.payload == *p).count();
            if n == 0 && !was_flipped(p) {
                // was a damaged version the only one on the wire? then loss is legitimate
                let pkt_zero = state.frames.iter().any(|f| f.bytes.len() >= 28 && f.bytes[9] == 17 && &f.bytes[28..] == &p[..] && (f.bytes[10..12] == [0, 0]));
                out.violate(Violation::new(
                    "interop",
                    if pkt_zero { "conforming-udp-datagram-rejected|ipv4-header-checksum-0x0000" } else { "conforming-udp-datagram-rejected" },
                    format!("datagram {id} built by the independent implementation ({} bytes, valid checksums) was not delivered", p.len()),
                ));
            }
        }
        if !log.foreign_handshake {
            out.violate(Violation::new("interop", "conforming-syn-rejected", "the TCP endpoint never answered the foreign stack's SYN".into()));
        } else if !log.foreign_all_acked || log.foreign_stream_read != log.foreign_stream_written {
            let zero = log.zero_checksum_packets > 0;
            out.violate(Violation::new(
                "interop",
                if zero { "conforming-tcp-segment-rejected|peer-sent-checksum-0x0000" } else { "conforming-tcp-segment-rejected" },
                format!(
                    "the foreign stack's stream did not progress: {} bytes acknowledged, {} delivered to the application, all acked: {}",
                    log.foreign_stream_written.len(),
                    log.foreign_stream_read.len(),
                    log.foreign_all_acked
                ),
            ));
        }
        // (3) detectable corruption is never delivered
        for a in accepted.lock().unwrap().iter() {
            out.violate(Violation::new("corruption-delivered", "decoder-accepts-altered-packet", a.clone()));
        }
        for r in state.rx.iter().filter(|r| r.machine == 1) {
            let ok = log.udp_sent.iter().any(|(i, l)| r.payload == marked_payload(*i, *l)) || log.foreign_udp_sent.iter().any(|(_, p)| r.payload == *p);
            if !ok {
                out.violate(Violation::new(
                    "corruption-delivered",
                    "udp",
                    format!("the recording application received {} bytes that match no datagram that was sent", r.payload.len()),
                ));
            }
        }
        let want: Vec<u8> = (0..log.stream_written).map(|i| sbyte(0, i)).collect();
        if log.stream_read != want {
            let p = log.stream_read.iter().zip(want.iter()).position(|(a, b)| a != b).unwrap_or(log.stream_read.len().min(want.len()));
            out.violate(Violation::new(
                "corruption-delivered",
                if p == log.stream_read.len() { "tcp-stream-incomplete" } else { "tcp-stream-corrupted" },
                format!("the Elvis-to-Elvis stream: {} written, {} read, first difference at {p}", want.len(), log.stream_read.len()),
            ));
        }
        let want_reply: Vec<u8> = (0..log.reply_written).map(|i| sbyte(0, REPLY_BASE + i)).collect();
        if log.reply_read.len() > want_reply.len() || log.reply_read[..] != want_reply[..log.reply_read.len()] {
            out.violate(Violation::new(
                "corruption-delivered",
                "tcp-reply-stream-corrupted",
                format!("the reply stream of the Elvis-to-Elvis connection: {} written, {} read, not a prefix", want_reply.len(), log.reply_read.len()),
            ));
        }
        out.add("stream_bytes_checked", want.len() as u64 + log.foreign_stream_written.len() as u64 + log.reply_read.len() as u64);
        out
    }

    fn budget(&self, tier: &Tier) -> (u64, u64) {
        match tier {
            Tier::Quick => (60_000, 50),
            Tier::Thorough => (4_000_000, 1200),
        }
    }

    fn avoid_switches(&self) -> Vec<&'static str> {
        vec!["no_zero_checksum_from_peer"]
    }

    fn describe(&self) -> ScenarioInfo {
        ScenarioInfo {
            engine: "E2 netsim (compute_checksum build)".into(),
            level: "exploration".into(),
            rule: "one run = two Elvis hosts exchanging marked UDP datagrams (lengths even, odd, minimal, near MTU) and a TCP socket stream, plus a foreign stack (etherparse + the harness's RFC 1071 code) that sends datagrams and runs a stop-and-wait TCP connection against the Elvis listener, with balance bytes forcing transport and IPv4 header checksums of 0x0000 in a fraction of its packets; the frame hook replaces frames by versions with one or two detectable bit flips; distinct = hash of decisions, frames and deliveries".into(),
            real_components: vec!["Checksum, Ipv4/Udp/Tcp header build and parse with checksums on, Tcp+TcpSession+Tcb, SocketAPI/Socket, Pci, Network, run_internet".into()],
            stub_components: vec!["foreign stack peer (etherparse, raw frames, stop-and-wait TCP)".into(), "wire monitor with independent RFC 1071 verification".into()],
            fault_kinds: vec!["one- or two-bit corruption of frames in flight".into(), "task-order perturbation".into()],
            assumptions: vec!["a flip that turns a UDP checksum field into 0x0000 counts as detectable (the stack never emits 0x0000, and the unchanged decoder rejects it)".into()],
        }
    }
}
