//! C12 direct-drive clause: the circular comparison primitives agree with the
//! mathematical circular order for all pairs less than 2^31 apart and are
//! mutually consistent. (No schedule, no fault.)

use crate::common::*;
use crate::rng::{fnv_u64, Rng, FNV_INIT};
use crate::worker::catching;
use elvis_core::protocols::tcp::verif_export::{mod_bounded, mod_geq, mod_gt, mod_leq, mod_lt, ModCmp};
use serde::{Deserialize, Serialize};
use serde_json::Value;

pub struct ModCmpCheck;
pub static C12_CMP: ModCmpCheck = ModCmpCheck;

#[derive(Serialize, Deserialize, Clone, Debug)]
pub struct MCase {
    pub a: u32,
    /// distance from a to b, < 2^31
    pub d1: u32,
    /// distance from b to c; d1 + d2 < 2^31
    pub d2: u32,
}

fn run(c: &MCase) -> Outcome {
    let mut out = Outcome::default();
    let mut h = FNV_INIT;
    fnv_u64(&mut h, c.a as u64);
    fnv_u64(&mut h, c.d1 as u64);
    fnv_u64(&mut h, c.d2 as u64);
    out.trace_hash = h;
    out.shape_hash = (c.d1 == 0) as u64 | ((c.d2 == 0) as u64) << 1 | ((c.a.checked_add(c.d1).is_none()) as u64) << 2;
    out.steps = 1;
    out.nontrivial = c.a.checked_add(c.d1).and_then(|x| x.checked_add(c.d2)).is_none() || c.d1 == 0 || c.d1 >= (1 << 31) - 2;
    let a = c.a;
    let b = a.wrapping_add(c.d1);
    let cc = b.wrapping_add(c.d2);
    if a.checked_add(c.d1).is_none() {
        out.count("probe_pair_straddles_wrap");
    }
    if c.d1 == (1 << 31) - 1 {
        out.count("probe_distance_2_31_minus_1");
    }
    let r = catching(|| {
        let mut bad: Vec<String> = vec![];
        let d = c.d1;
        // pairs: b is d ahead of a, 0 <= d < 2^31
        let want_lt = d > 0;
        if mod_lt(a, b) != want_lt {
            bad.push(format!("lt|mod_lt({a},{b}) = {} with b = a+{d}", mod_lt(a, b)));
        }
        if mod_lt(b, a) {
            bad.push(format!("lt-reverse|mod_lt({b},{a}) = true although a is {d} behind b"));
        }
        if mod_gt(b, a) != want_lt {
            bad.push(format!("gt|mod_gt({b},{a}) = {} with b = a+{d}", mod_gt(b, a)));
        }
        if !mod_leq(a, b) {
            bad.push(format!("leq|mod_leq({a},{b}) = false with b = a+{d}"));
        }
        if mod_leq(b, a) != (d == 0) {
            bad.push(format!("leq-reverse|mod_leq({b},{a}) = {} with b = a+{d}", mod_leq(b, a)));
        }
        if !mod_geq(b, a) {
            bad.push(format!("geq|mod_geq({b},{a}) = false with b = a+{d}"));
        }
        if mod_geq(a, b) != (d == 0) {
            bad.push(format!("geq-reverse|mod_geq({a},{b}) = {} with b = a+{d}", mod_geq(a, b)));
        }
        // mutual consistency
        if mod_leq(a, b) != (mod_lt(a, b) || a == b) {
            bad.push(format!("consistency|leq({a},{b}) differs from lt or eq"));
        }
        if mod_gt(a, b) != !mod_leq(a, b) && d != 0 {
            bad.push(format!("consistency|gt({a},{b}) differs from not leq"));
        }
        // bounded-between: a, b, c in this circular order, span < 2^31
        let (d1, d2) = (c.d1, c.d2);
        for (ab, bc) in [(ModCmp::Lt, ModCmp::Lt), (ModCmp::Lt, ModCmp::Leq), (ModCmp::Leq, ModCmp::Lt), (ModCmp::Leq, ModCmp::Leq)] {
            let want = (if ab == ModCmp::Lt { d1 > 0 } else { true }) && (if bc == ModCmp::Lt { d2 > 0 } else { true });
            let got = mod_bounded(a, ab, b, bc, cc);
            if got != want {
                bad.push(format!("bounded|mod_bounded({a},{ab:?},{b},{bc:?},{cc}) = {got}, b = a+{d1}, c = b+{d2}"));
            }
            // composition with the pair primitives
            let comp = (if ab == ModCmp::Lt { mod_lt(a, b) } else { mod_leq(a, b) }) && (if bc == ModCmp::Lt { mod_lt(b, cc) } else { mod_leq(b, cc) });
            if got != comp {
                bad.push(format!("bounded-composition|mod_bounded({a},{ab:?},{b},{bc:?},{cc}) = {got} but the pair primitives say {comp}"));
            }
        }
        // something outside [a, c] is not between them: b' = c + e, e in 1..(2^31 - span)
        let span = d1 as u64 + d2 as u64;
        if span + 2 < (1 << 31) {
            let outside = cc.wrapping_add(1);
            if mod_bounded(a, ModCmp::Leq, outside, ModCmp::Leq, cc) && outside != a {
                bad.push(format!("bounded-outside|mod_bounded({a},Leq,{outside},Leq,{cc}) = true"));
            }
        }
        bad
    });
    match r {
        Ok(bad) => {
            for b in bad {
                let (class, detail) = b.split_once('|').unwrap();
                let at_limit = if c.d1 >= (1 << 31) - 2 || c.d1 as u64 + c.d2 as u64 >= (1 << 31) - 2 { "|at-distance-limit" } else { "" };
                out.violate(Violation::new("circular-order", &format!("{class}{at_limit}"), detail.to_string()));
            }
        }
        Err(p) => out.violate(Violation::new("panic", &panic_class(&p), format!("comparison primitive panicked: {}", p.msg))),
    }
    out
}

fn generate(seed: u64, opts: &RunOpts) -> MCase {
    let mut rng = Rng::new(seed);
    let limit: u64 = if opts.avoids("no_distance_limit") { (1 << 31) - 3 } else { (1 << 31) - 1 };
    let a = match rng.below(6) {
        0 => 0,
        1 => u32::MAX,
        2 => (1u32 << 31).wrapping_add(rng.below(5) as u32).wrapping_sub(2),
        3 => (0u32).wrapping_sub(rng.below(70_000) as u32),
        _ => rng.next_u64() as u32,
    };
    let total = match rng.below(6) {
        0 => rng.below(4),
        1 => limit - rng.below(3.min(limit)),
        2 => rng.below(70_000),
        _ => rng.below(limit + 1),
    };
    let d1 = match rng.below(4) {
        0 => 0,
        1 => total,
        _ => rng.below(total + 1),
    };
    MCase {
        a,
        d1: d1 as u32,
        d2: (total - d1) as u32,
    }
}

impl Scenario for ModCmpCheck {
    fn id(&self) -> &'static str {
        "C12.cmp"
    }

    fn run_seed(&self, seed: u64, opts: &RunOpts) -> (Value, Outcome) {
        let c = generate(seed, opts);
        let out = run(&c);
        (serde_json::to_value(&c).unwrap(), out)
    }

    fn run_case(&self, case: &Value) -> Outcome {
        match serde_json::from_value::<MCase>(case.clone()) {
            Ok(c) => run(&c),
            Err(e) => {
                let mut o = Outcome::default();
                o.violate(Violation::new("harness-panic", "bad-case", format!("{e}")));
                o
            }
        }
    }

    fn shrink(&self, case: &Value) -> Vec<Value> {
        let Ok(c) = serde_json::from_value::<MCase>(case.clone()) else {
            return vec![];
        };
        let mut out = vec![];
        if c.a > 100 {
            out.push(MCase { a: 100, ..c.clone() });
            out.push(MCase { a: c.a / 2, ..c.clone() });
        }
        if c.d2 > 0 {
            out.push(MCase { d2: 0, ..c.clone() });
            out.push(MCase { d2: c.d2 / 2, ..c.clone() });
        }
        if c.d1 > 0 {
            out.push(MCase { d1: c.d1 / 2, ..c.clone() });
            out.push(MCase { d1: c.d1 - 1, ..c.clone() });
        }
        out.into_iter().map(|c| serde_json::to_value(&c).unwrap()).collect()
    }

    fn chunk(&self, _tier: &Tier) -> u64 {
        20_000
    }

    fn budget(&self, tier: &Tier) -> (u64, u64) {
        match tier {
            Tier::Quick => (2_000_000, 30),
            Tier::Thorough => (200_000_000, 600),
        }
    }

    fn avoid_switches(&self) -> Vec<&'static str> {
        vec!["no_distance_limit"]
    }

    fn describe(&self) -> ScenarioInfo {
        ScenarioInfo {
            engine: "direct".into(),
            level: "exploration".into(),
            rule: "direct-drive (no schedule, no fault): triples a, b = a+d1, c = b+d2 with d1+d2 < 2^31, dense at 0, u32::MAX, 2^31 and at the distance limit; mod_lt/leq/gt/geq and mod_bounded in all four Lt/Leq combinations against the mathematical circular order, plus mutual consistency (leq = lt or eq, gt = not leq, bounded = composition of the pair primitives); non-trivial = the triple straddles the wrap point or sits at a boundary".into(),
            real_components: vec!["tcp::tcb::modular_cmp::{mod_lt, mod_leq, mod_gt, mod_geq, mod_bounded}".into()],
            stub_components: vec![],
            fault_kinds: vec![],
            assumptions: vec![],
        }
    }
}
