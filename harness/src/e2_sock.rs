//! C02: socket I/O across the full stack is intact, ordered and bounded.

use crate::common::*;
use crate::e2::*;
use crate::sim::{self, E2Case, FaultPlan};
use elvis_core::protocols::ipv4::{Ipv4, Ipv4Address, Recipient};
use elvis_core::protocols::socket_api::socket::{ProtocolFamily, Socket, SocketType};
use elvis_core::protocols::{Arp, Endpoint, Pci, SocketAPI, Tcp, Udp};
use elvis_core::{ExitStatus, IpTable, Machine, Network};
use std::collections::BTreeMap;
use std::sync::{Arc, Mutex};
use std::time::Duration;

pub struct Sock;

/// Stream bytes carry their origin in the top two bits (client 0..2, 3 = the
/// server) and a hash of (stream, offset) in the lower six.
fn sbyte(tag: u8, salt: u8, off: u64) -> u8 {
    let h = (off ^ ((salt as u64) << 40)).wrapping_mul(0x9E37_79B9_7F4A_7C15) >> 58;
    (tag << 6) | (h as u8 & 0x3f)
}

fn stream(tag: u8, salt: u8, from: u64, n: usize) -> Vec<u8> {
    (0..n as u64).map(|k| sbyte(tag, salt, from + k)).collect()
}

#[derive(Clone, Debug, Default)]
struct Conn {
    /// (requested n, bytes returned) per read
    reads: Vec<(usize, Vec<u8>)>,
}

#[derive(Default)]
struct Log {
    /// bytes accepted by send() per client, in program order
    client_writes: BTreeMap<usize, Vec<usize>>,
    /// what the server wrote to the connection it accepted j-th
    server_writes: BTreeMap<usize, Vec<usize>>,
    server_conns: Vec<Conn>,
    client_conns: BTreeMap<usize, Conn>,
    /// datagram mode: (client, seq, len) sent; (conn, payload) received
    dgrams_sent: Vec<(usize, u64, usize)>,
    dgrams_rcvd: Vec<(usize, Vec<u8>)>,
    errors: Vec<String>,
    back_to_back_writes: bool,
    late_reader: bool,
}

/// Polls a future at most `left` times, then abandons it (the fault kind
/// "a read is cancelled at an await point", as `select!` or a timeout would).
struct PollN<F> {
    fut: std::pin::Pin<Box<F>>,
    left: u32,
}

impl<F: std::future::Future> std::future::Future for PollN<F> {
    type Output = Option<F::Output>;
    fn poll(mut self: std::pin::Pin<&mut Self>, cx: &mut std::task::Context<'_>) -> std::task::Poll<Self::Output> {
        match self.fut.as_mut().poll(cx) {
            std::task::Poll::Ready(v) => std::task::Poll::Ready(Some(v)),
            std::task::Poll::Pending => {
                self.left = self.left.saturating_sub(1);
                if self.left == 0 {
                    std::task::Poll::Ready(None)
                } else {
                    std::task::Poll::Pending
                }
            }
        }
    }
}

async fn read_until_quiet(mut sock: Socket, sizes: Vec<usize>, quiet_ms: u64, msg_mode: bool, cancel_pm: u64, mut on_read: impl FnMut(usize, Vec<u8>)) {
    let mut i = 0;
    // some readers poll a non-blocking socket instead of waiting in the call
    let polling = sim::chance(1, 5);
    if polling {
        sim::count("probe_non_blocking_reader");
        sock.set_blocking(false);
        let pause = 1 + sim::choose(40);
        let mut idle = 0u64;
        while idle < quiet_ms {
            let n = sizes[i % sizes.len()];
            i += 1;
            let got = if msg_mode {
                sock.recv_msg().await.ok().map(|m| (usize::MAX, m.to_vec()))
            } else {
                match sock.recv(n).await {
                    Ok(b) if !b.is_empty() => Some((n, b)),
                    _ => None,
                }
            };
            match got {
                Some((n, b)) => {
                    idle = 0;
                    on_read(n, b);
                }
                None => {
                    tokio::time::sleep(Duration::from_millis(pause)).await;
                    idle += pause;
                }
            }
        }
        return;
    }
    loop {
        let n = sizes[i % sizes.len()];
        i += 1;
        if cancel_pm > 0 && !msg_mode && sim::chance(cancel_pm, 1000) {
            // an abandoned read: whatever it had taken must not be lost
            let k = 1 + sim::choose(2) as u32;
            let r = PollN {
                fut: Box::pin(sock.recv(n)),
                left: k,
            }
            .await;
            sim::count("fault_read_cancelled");
            if let Some(Ok(b)) = r {
                on_read(n, b);
            }
            continue;
        }
        if msg_mode {
            match tokio::time::timeout(Duration::from_millis(quiet_ms), sock.recv_msg()).await {
                Ok(Ok(m)) => on_read(usize::MAX, m.to_vec()),
                _ => break,
            }
        } else {
            match tokio::time::timeout(Duration::from_millis(quiet_ms), sock.recv(n)).await {
                Ok(Ok(b)) => on_read(n, b),
                _ => break,
            }
        }
    }
}

impl E2Run for Sock {
    fn id(&self) -> &'static str {
        "C02"
    }

    fn run(&self, case: &E2Case, opts: &RunOpts) -> Outcome {
        let log: Arc<Mutex<Log>> = Arc::new(Mutex::new(Log::default()));
        let log2 = log.clone();
        let avoid_b2b = opts.avoids("no_back_to_back_writes");
        let avoid_late = opts.avoids("no_late_reader");
        let mode_cell: Arc<Mutex<(bool, usize, bool)>> = Arc::new(Mutex::new((true, 0, false)));
        let mode2 = mode_cell.clone();
        let (status, state) = sim::run_sim(case, default_cfg(), move || async move {
            draw_scheduler_knobs();
            let lossy = sim::chance(1, 2);
            let plan = FaultPlan {
                drop: if lossy { *[20u64, 80, 200].get(sim::choose(3) as usize).unwrap() } else { 0 },
                dup: *[0u64, 0, 50].get(sim::choose(3) as usize).unwrap(),
                delay: *[0u64, 200, 600].get(sim::choose(3) as usize).unwrap(),
                max_delay_ms: 300,
                max_consecutive_drops: 3,
                ..Default::default()
            };
            sim::with_state(|s| s.plan = plan);
            let stream_mode = !sim::chance(1, 4);
            let n_clients = 1 + sim::choose(3) as usize;
            let with_arp = sim::chance(1, 2);
            *mode2.lock().unwrap() = (stream_mode, n_clients, with_arp);
            let mtu = *[100u16, 200, 576, 1500, 1500].get(sim::choose(5) as usize).unwrap();
            let jitter = sim::choose(3) * 20;
            let mut nb = elvis_core::network::NetworkBuilder::new().mtu(mtu);
            if jitter > 0 {
                nb = nb.latency(elvis_core::network::Latency::variable(Duration::from_millis(1), Duration::from_millis(jitter)));
            }
            let net = nb.build();
            sim::network_index(Arc::as_ptr(&net) as usize);
            // addresses and the listening port differ from run to run: which entries of the stack's
            // sharded tables (sessions, listen bindings) share a lock depends on them
            let subnet = [10, sim::choose(4) as u8, sim::choose(256) as u8];
            let first_host = 1 + sim::choose(240) as u8;
            let server_ip = [subnet[0], subnet[1], subnet[2], first_host];
            let server_ep = Endpoint::new(Ipv4Address::new(server_ip), 1024 + sim::choose(60_000) as u16);
            let mk_machine = |ip: [u8; 4], net: &Arc<Network>| {
                let table: IpTable<Recipient> = [("0.0.0.0/0", Recipient::new(0, None))].into_iter().collect();
                let m = Machine::new()
                    .with(SocketAPI::new(Some(Ipv4Address::new(ip))))
                    .with(Tcp::new())
                    .with(Udp::new())
                    .with(Ipv4::new(table))
                    .with(Pci::new([net.clone()]));
                if with_arp {
                    m.with(Arp::new())
                } else {
                    m
                }
            };
            // ---- plans
            let size_class = sim::choose(10);
            let pick_size = move || -> usize {
                let mss = mtu as usize - 50;
                match size_class {
                    0..=5 => *[1usize, 2, 7, 64, 300, mss - 1, mss, mss + 1].get(sim::choose(8) as usize).unwrap(),
                    6..=8 => *[1usize, mss, 3 * mss + 5, 5000, 20_000].get(sim::choose(5) as usize).unwrap(),
                    _ => *[mss, 30_000, 70_000, 100_000].get(sim::choose(4) as usize).unwrap(),
                }
            };
            // trickle: one client sends hundreds of small spaced writes to a reader that starts
            // only when all of them have arrived (every write is a message of its own in the
            // receiving socket's queue)
            let trickle = stream_mode && !avoid_late && sim::chance(1, 12);
            if trickle {
                sim::count("probe_trickle_to_a_late_reader");
            }
            let max_dgram = mtu as usize - 28 - 20;
            let mut client_plans = vec![];
            for c in 0..n_clients {
                let trickling = trickle && c == 0;
                let n_writes = if trickling { 260 + sim::choose(200) as usize } else { 1 + sim::choose(if size_class >= 9 { 4 } else { 40 }) as usize };
                let spaced = avoid_b2b || trickling || sim::chance(1, 3);
                let mut writes = vec![];
                for _ in 0..n_writes {
                    let n = if trickling { 1 + sim::choose(64) as usize } else if stream_mode { pick_size() } else { 8 + sim::choose(max_dgram as u64 - 8) as usize };
                    let gap = if trickling { 2 + sim::choose(9) } else if spaced { 150 + sim::choose(200) } else if sim::chance(1, 6) { sim::choose(50) } else { 0 };
                    writes.push((n, gap));
                }
                if !spaced && n_writes > 1 {
                    log2.lock().unwrap().back_to_back_writes = true;
                }
                let start_delay = sim::choose(3) * sim::choose(200);
                let read_sizes: Vec<usize> = (0..4).map(|_| *[1usize, 4, 100, 1000, 70_000].get(sim::choose(5) as usize).unwrap()).collect();
                client_plans.push((c, writes, start_delay, read_sizes));
            }
            let accept_delay = sim::choose(3) * sim::choose(400);
            let server_read_sizes: Vec<usize> = (0..6).map(|_| *[1usize, 3, 4, 50, 1000, 1460, 70_000].get(sim::choose(7) as usize).unwrap()).collect();
            let server_msg_mode = !stream_mode || sim::chance(1, 5);
            let cancel_pm = *[0u64, 0, 100, 300].get(sim::choose(4) as usize).unwrap();
            let reader_lag = if trickle { 700 } else if avoid_late { 0 } else { sim::choose(3) * sim::choose(30) };
            if reader_lag > 0 {
                log2.lock().unwrap().late_reader = true;
            }
            // what the server writes back on each accepted connection
            let reply_writes: Vec<usize> = if stream_mode && sim::chance(1, 2) {
                (0..1 + sim::choose(5)).map(|_| pick_size().min(20_000)).collect()
            } else {
                vec![]
            };
            let reply_spaced = avoid_b2b || sim::chance(1, 2);
            if !reply_spaced && reply_writes.len() > 1 {
                log2.lock().unwrap().back_to_back_writes = true;
            }
            let sock_type = if stream_mode { SocketType::Stream } else { SocketType::Datagram };

            // the listener may be bound to the wildcard address; a stray client may try a port
            // nobody listens on (its fate is not asserted: it must disturb nothing and crash nothing)
            let wildcard_bind = sim::chance(1, 4);
            let stray = stream_mode && sim::chance(1, 6);
            if wildcard_bind {
                sim::count("probe_listener_bound_to_the_wildcard_address");
            }
            // ---- server
            let slog = log2.clone();
            let expect_reply_global = !reply_writes.is_empty();
            let server_app = App::<0>::new(0).script(move |ctx: Ctx| async move {
                let api = ctx.machine.protocol::<SocketAPI>().unwrap();
                let mut lsock = match api.new_socket(ProtocolFamily::INET, sock_type, ctx.machine.clone()).await {
                    Ok(s) => s,
                    Err(e) => {
                        slog.lock().unwrap().errors.push(format!("server socket: {e}"));
                        return;
                    }
                };
                let bind_ep = if wildcard_bind { Endpoint::new(Ipv4Address::new([0, 0, 0, 0]), server_ep.port) } else { server_ep };
                if lsock.bind(bind_ep).is_err() || lsock.listen(16).is_err() {
                    slog.lock().unwrap().errors.push("server bind/listen failed".into());
                    return;
                }
                if accept_delay > 0 {
                    tokio::time::sleep(Duration::from_millis(accept_delay)).await;
                }
                let mut readers = vec![];
                for j in 0..n_clients {
                    let sock = match tokio::time::timeout(Duration::from_secs(20), lsock.accept()).await {
                        Ok(Ok(s)) => s,
                        _ => break,
                    };
                    slog.lock().unwrap().server_conns.push(Conn::default());
                    // the reply stream of this connection
                    let mut accepted = vec![];
                    let mut off = 0u64;
                    for n in &reply_writes {
                        if sock.send(stream(3, j as u8, off, *n)).is_ok() {
                            accepted.push(*n);
                            off += *n as u64;
                        }
                        if reply_spaced {
                            tokio::time::sleep(Duration::from_millis(200)).await;
                        }
                    }
                    slog.lock().unwrap().server_writes.insert(j, accepted);
                    let slog2 = slog.clone();
                    let sizes = server_read_sizes.clone();
                    readers.push(elvis_core::verif::tokio::spawn(async move {
                        if reader_lag > 0 {
                            tokio::time::sleep(Duration::from_millis(reader_lag * 10)).await;
                        }
                        read_until_quiet(sock, sizes, 4000, server_msg_mode, cancel_pm, |n, b| {
                            sim::note_trace(6, j as u64, b.len() as u64);
                            if stream_mode {
                                slog2.lock().unwrap().server_conns[j].reads.push((n, b));
                            } else {
                                slog2.lock().unwrap().dgrams_rcvd.push((j, b));
                            }
                        })
                        .await;
                    }));
                }
                for r in readers {
                    let _ = r.await;
                }
                ctx.shutdown.shut_down();
            });
            let mut machines = vec![mk_machine(server_ip, &net).with(server_app).arc()];

            // ---- clients
            let colocate = n_clients >= 2 && sim::chance(1, 4);
            if colocate {
                sim::count("probe_two_client_sockets_on_one_machine");
            }
            let mut pending_machine: Option<Machine> = None;
            for (c, writes, start_delay, read_sizes) in client_plans {
                let clog = log2.clone();
                let expect_reply = expect_reply_global;
                let script = move |ctx: Ctx| async move {
                    if start_delay > 0 {
                        tokio::time::sleep(Duration::from_millis(start_delay)).await;
                    }
                    let api = ctx.machine.protocol::<SocketAPI>().unwrap();
                    if stray && c == 0 {
                        let api = api.clone();
                        let machine = ctx.machine.clone();
                        elvis_core::verif::tokio::spawn(async move {
                            if let Ok(mut s) = api.new_socket(ProtocolFamily::INET, SocketType::Stream, machine).await {
                                let closed = Endpoint::new(server_ep.address, server_ep.port + 1);
                                let r = tokio::time::timeout(Duration::from_secs(10), s.connect(closed)).await;
                                sim::count(match r {
                                    Ok(Ok(_)) => "probe_stray_connect_to_closed_port_returned_ok",
                                    Ok(Err(_)) => "probe_stray_connect_to_closed_port_refused",
                                    Err(_) => "probe_stray_connect_to_closed_port_still_waiting_after_10s",
                                });
                            }
                        });
                    }
                    let mut sock = match api.new_socket(ProtocolFamily::INET, sock_type, ctx.machine.clone()).await {
                        Ok(s) => s,
                        Err(_) => return,
                    };
                    if let Err(e) = sock.connect(server_ep).await {
                        clog.lock().unwrap().errors.push(format!("client {c} connect: {e}"));
                        return;
                    }
                    let mut off = 0u64;
                    let mut seq = 0u64;
                    for (n, gap) in writes {
                        if gap > 0 {
                            tokio::time::sleep(Duration::from_millis(gap)).await;
                        }
                        if stream_mode {
                            if sock.send(stream(c as u8, 0, off, n)).is_ok() {
                                clog.lock().unwrap().client_writes.entry(c).or_default().push(n);
                                off += n as u64;
                            }
                        } else {
                            let id = ((c as u64) << 32) | seq;
                            seq += 1;
                            if sock.send(marked_payload(id, n)).is_ok() {
                                clog.lock().unwrap().dgrams_sent.push((c, id, n));
                            }
                        }
                        sim::note_trace(4, c as u64, n as u64);
                    }
                    sim::with_state(|s| {
                        let done = s.counters.entry("clients_done_writing".into()).or_insert(0);
                        *done += 1;
                    });
                    if expect_reply {
                        let clog2 = clog.clone();
                        read_until_quiet(sock, read_sizes, 4000, false, cancel_pm, |n, b| {
                            clog2.lock().unwrap().client_conns.entry(c).or_default().reads.push((n, b));
                        })
                        .await;
                    } else {
                        // keep the socket open until the run ends
                        tokio::time::sleep(Duration::from_secs(100)).await;
                        drop(sock);
                    }
                };
                // in a quarter of the runs with several clients, clients 0 and 1 are two sockets of one machine
                if colocate && c == 1 {
                    let m = pending_machine.take().expect("client 0's machine");
                    pending_machine = Some(m.with(App::<1>::new(1).script(script)));
                } else {
                    if let Some(m) = pending_machine.take() {
                        machines.push(m.arc());
                    }
                    pending_machine = Some(mk_machine([subnet[0], subnet[1], subnet[2], first_host + 1 + c as u8], &net).with(App::<0>::new(c + 1).script(script)));
                }
            }
            if let Some(m) = pending_machine.take() {
                machines.push(m.arc());
            }
            // faults stop once every client has finished writing (plus a grace period)
            elvis_core::verif::tokio::spawn(async move {
                loop {
                    tokio::time::sleep(Duration::from_millis(100)).await;
                    let done = sim::with_state(|s| s.counters.get("clients_done_writing").copied().unwrap_or(0));
                    if done >= n_clients as u64 {
                        tokio::time::sleep(Duration::from_millis(500)).await;
                        sim::with_state(|s| s.faults_enabled = false);
                        break;
                    }
                }
            });
            run_machines(machines, 120_000).await
        });
        let mut out = Outcome::default();
        finish(&state, &mut out);
        out.counters.remove("clients_done_writing");
        let log = log.lock().unwrap();
        let (stream_mode, _n_clients, _arp) = *mode_cell.lock().unwrap();
        if std::env::var("VERIF_TRACE").is_ok() {
            eprintln!("stream_mode={stream_mode} status={status:?} errors={:?} final_ms={}", log.errors, state.final_ms);
            eprintln!("client_writes={:?}\nserver_writes={:?}", log.client_writes, log.server_writes);
            for (j, c) in log.server_conns.iter().enumerate() {
                eprintln!("server conn {j}: reads {:?}", c.reads.iter().map(|(n, b)| (*n, b.len())).collect::<Vec<_>>());
            }
            for (c, k) in &log.client_conns {
                eprintln!("client {c}: reads {:?}", k.reads.iter().map(|(n, b)| (*n, b.len())).collect::<Vec<_>>());
            }
            eprintln!("counters {:?}", state.counters);
            let ipv4 = std::any::TypeId::of::<Ipv4>();
            for f in state.frames.iter().filter(|f| f.protocol == ipv4).take(260) {
                eprintln!("  t={} ev={} x{} {}", f.time_ms, f.event, f.copies, describe_ipv4_frame(&f.bytes));
            }
            let mut last = 0;
            for f in state.frames.iter() {
                if f.time_ms > last + 500 { eprintln!("  ... frame gap until t={}", f.time_ms); }
                last = f.time_ms;
            }
            eprintln!("frames {} last at t={last}", state.frames.len());
        }
        if status != Some(ExitStatus::Exited) {
            out.violate(Violation::new(
                "no-progress",
                "run-did-not-end",
                format!("socket scenario ended with {status:?} (errors: {:?})", log.errors),
            ));
            return out;
        }
        // (the two context markers were class suffixes while the write-order and
        // receive-queue defects were open; both are fixed, one class per oracle now)
        let ctx_suffix = |_log: &Log| -> String { String::new() };
        if log.back_to_back_writes {
            out.count("probe_back_to_back_writes");
        }
        if log.late_reader {
            out.count("probe_late_reader");
        }
        let check_stream = |out: &mut Outcome, who: &str, conn: &Conn, written: &dyn Fn(u8) -> Option<Vec<u8>>| {
            let mut got: Vec<u8> = vec![];
            for (n, b) in &conn.reads {
                if *n != usize::MAX && b.len() > *n {
                    out.violate(Violation::new(
                        "read-bound",
                        "recv-returned-more-than-asked",
                        format!("{who}: recv({n}) returned {} bytes", b.len()),
                    ));
                }
                got.extend_from_slice(b);
            }
            if got.is_empty() {
                return None;
            }
            let tag = got[0] >> 6;
            if let Some(p) = got.iter().position(|b| b >> 6 != tag) {
                out.violate(Violation::new(
                    "stream",
                    "bytes-of-another-connection",
                    format!("{who}: byte {p} of the stream belongs to origin {} but the stream started with origin {tag}", got[p] >> 6),
                ));
                return Some(tag);
            }
            let Some(want) = written(tag) else {
                out.violate(Violation::new("stream", "unknown-origin", format!("{who}: stream of unknown origin {tag}")));
                return Some(tag);
            };
            out.add("stream_bytes_checked", got.len() as u64);
            let common = got.len().min(want.len());
            if let Some(p) = (0..common).find(|i| got[*i] != want[*i]) {
                // classify: do the bytes at p occur later (a gap: bytes lost) or earlier (reordered / duplicated)?
                let probe: Vec<u8> = got[p..(p + 12).min(got.len())].to_vec();
                let find = |hay: &[u8], from: usize, to: usize| (from..to.min(hay.len().saturating_sub(probe.len()) + 1)).find(|q| hay[*q..].starts_with(&probe));
                let mut sorted_got = got.clone();
                let mut sorted_want = want.clone();
                sorted_got.sort_unstable();
                sorted_want.sort_unstable();
                let kind = if sorted_got == sorted_want {
                    "writes-permuted"
                } else if find(&want, p + 1, want.len()).is_some() {
                    "bytes-missing"
                } else if find(&want, 0, p).is_some() {
                    "bytes-repeated-or-reordered"
                } else {
                    "foreign-bytes"
                };
                out.violate(Violation::new(
                    "stream",
                    &format!("{kind}{}", ctx_suffix(&log)),
                    format!("{who}: the bytes read are not a prefix of the bytes written: first difference at offset {p} of {} read / {} written ({kind})", got.len(), want.len()),
                ));
            } else if got.len() > want.len() {
                out.violate(Violation::new("stream", "more-than-written", format!("{who}: read {} bytes, only {} were written", got.len(), want.len())));
            } else if got.len() < want.len() {
                out.violate(Violation::new(
                    "stream",
                    &format!("incomplete{}", ctx_suffix(&log)),
                    format!("{who}: only {} of the {} bytes written were read although faults had stopped and the connection was quiet for 4 s", got.len(), want.len()),
                ));
            }
            Some(tag)
        };
        if stream_mode {
            let mut seen_tags = vec![];
            for (j, conn) in log.server_conns.iter().enumerate() {
                let cw = &log.client_writes;
                let t = check_stream(&mut out, &format!("server connection {j}"), conn, &|tag| {
                    cw.get(&(tag as usize)).map(|w| stream(tag, 0, 0, w.iter().sum()))
                });
                if let Some(t) = t {
                    if seen_tags.contains(&t) {
                        out.violate(Violation::new("stream", "one-client-on-two-connections", format!("two accepted connections carry the stream of client {t}")));
                    }
                    seen_tags.push(t);
                }
            }
            // every client that wrote something was read completely
            for (c, w) in &log.client_writes {
                let total: usize = w.iter().sum();
                if total > 0 && !seen_tags.contains(&(*c as u8)) {
                    out.violate(Violation::new(
                        "stream",
                        &format!("nothing-arrived{}", ctx_suffix(&log)),
                        format!("client {c} wrote {total} bytes but no accepted connection ever delivered a byte of them"),
                    ));
                }
            }
            for (c, conn) in &log.client_conns {
                let sw = &log.server_writes;
                // which server connection is this client's? the one whose stream had its tag
                let j = log.server_conns.iter().position(|sc| sc.reads.iter().flat_map(|(_, b)| b.first()).next().map(|b| (b >> 6) as usize) == Some(*c));
                check_stream(&mut out, &format!("client {c}"), conn, &|tag| {
                    if tag != 3 {
                        return None;
                    }
                    let j = j?;
                    sw.get(&j).map(|w| stream(3, j as u8, 0, w.iter().sum()))
                });
            }
        } else {
            out.add("datagrams_sent", log.dgrams_sent.len() as u64);
            // which client does a connected socket belong to? the origin of its first datagram
            let mut owner: BTreeMap<usize, usize> = BTreeMap::new();
            let mut counts: BTreeMap<u64, u32> = BTreeMap::new();
            for (j, p) in &log.dgrams_rcvd {
                let Some(id) = payload_id(p) else {
                    out.violate(Violation::new("datagram", "foreign", "a datagram nobody sent was received".into()));
                    continue;
                };
                let c = (id >> 32) as usize;
                let Some((_, _, len)) = log.dgrams_sent.iter().find(|(_, i, _)| *i == id) else {
                    out.violate(Violation::new("datagram", "foreign", format!("datagram id {id:#x} was never sent")));
                    continue;
                };
                if *p != marked_payload(id, *len) {
                    out.violate(Violation::new("datagram", "not-intact", format!("datagram {id:#x} arrived changed")));
                }
                let o = owner.entry(*j).or_insert(c);
                if *o != c {
                    out.violate(Violation::new(
                        "datagram",
                        "third-party-on-connected-socket",
                        format!("the connected socket {j} of client {o} delivered a datagram of client {c}"),
                    ));
                }
                *counts.entry(id).or_insert(0) += 1;
            }
            let dups = state.counters.get("fault_frame_duplicated").copied().unwrap_or(0) as u32;
            for (id, n) in &counts {
                if *n > 1 + dups {
                    out.violate(Violation::new("datagram", "duplicated", format!("datagram {id:#x} was delivered {n} times with {dups} duplicated frames in the run")));
                }
            }
        }
        out
    }

    fn budget(&self, tier: &Tier) -> (u64, u64) {
        match tier {
            Tier::Quick => (40_000, 50),
            Tier::Thorough => (3_000_000, 1200),
        }
    }

    fn chunk(&self) -> u64 {
        20
    }

    fn avoid_switches(&self) -> Vec<&'static str> {
        vec!["no_back_to_back_writes", "no_late_reader"]
    }

    fn describe(&self) -> ScenarioInfo {
        ScenarioInfo {
            engine: "E2 netsim".into(),
            level: "exploration".into(),
            rule: "one run = one listening server and 1..3 clients (stream or datagram sockets, with or without ARP, MTU 100..1500, latency jitter), generated write scripts (1..40 writes of 1 B..100 KB, back-to-back or spaced), read scripts (recv(n) for n in 1..70000, recv_msg), early or late accept, optional reply stream; frame faults: bounded loss (<=3 consecutive per flow), duplication, delay up to 300 ms until the writers are done; seeded task-order perturbation stands in for runtime flavour and worker count; distinct = hash of decisions, frames and reads".into(),
            real_components: vec!["SocketAPI, Socket, SocketSession, TcpListener/TcpStream paths, Tcp, TcpSession, Tcb, Udp, Ipv4, Arp, Pci, Network, Machine, run_internet".into()],
            stub_components: vec!["client and server applications (harness scripts)".into()],
            fault_kinds: vec!["read cancelled at an await point".into(), "frame loss (bounded)".into(), "frame duplication".into(), "frame delay / reordering".into(), "latency jitter".into(), "task-order perturbation (poll deferral)".into(), "late accept / late reader".into()],
            assumptions: vec!["task-start orders of a multi-thread runtime are represented by deferrals on one thread; intra-poll data races are out of reach (DESIGN.md section 7)".into()],
        }
    }
}
