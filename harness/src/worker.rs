//! Worker process: reads one JSON request per line on stdin, answers on a
//! private copy of stdout (Elvis prints to stdout; fd 1 is pointed at
//! /dev/null). Lines are prefixed: `B <index>` (a run begins), `P <json>`
//! (a panic is unwinding / about to exit), `R <json>` (result of a request).

use crate::common::*;
use crate::scenarios;
use serde_json::Value;
use std::cell::{Cell, RefCell};
use std::fs::File;
use std::io::{BufRead, Write};
use std::os::unix::io::FromRawFd;
use std::sync::Mutex;

static OUT: Mutex<Option<File>> = Mutex::new(None);

thread_local! {
    /// set while an engine runs code under catch_unwind
    pub static CATCHING: Cell<bool> = const { Cell::new(false) };
    pub static LAST_PANIC: RefCell<Option<PanicInfo>> = const { RefCell::new(None) };
    /// set by process-isolated scenarios: a panic terminates the worker
    pub static EXIT_ON_PANIC: Cell<bool> = const { Cell::new(false) };
}

pub fn emit(prefix: char, json: &str) {
    let mut guard = OUT.lock().unwrap_or_else(|e| e.into_inner());
    if let Some(out) = guard.as_mut() {
        let _ = writeln!(out, "{prefix} {json}");
        let _ = out.flush();
    }
}

fn payload_msg(info: &std::panic::PanicHookInfo<'_>) -> String {
    if let Some(s) = info.payload().downcast_ref::<&str>() {
        s.to_string()
    } else if let Some(s) = info.payload().downcast_ref::<String>() {
        s.clone()
    } else {
        "<non-string panic payload>".to_string()
    }
}

pub fn install_hook() {
    std::panic::set_hook(Box::new(|info| {
        let (file, line) = info
            .location()
            .map(|l| (l.file().to_string(), l.line()))
            .unwrap_or_default();
        let pi = PanicInfo {
            file,
            line,
            msg: payload_msg(info),
        };
        if CATCHING.with(|c| c.get()) {
            LAST_PANIC.with(|p| *p.borrow_mut() = Some(pi));
            return;
        }
        emit('P', &serde_json::to_string(&pi).unwrap());
        if EXIT_ON_PANIC.with(|c| c.get()) {
            std::process::exit(101);
        }
    }));
}

/// Runs `f` catching panics; returns the panic information on unwind.
pub fn catching<R>(f: impl FnOnce() -> R) -> Result<R, PanicInfo> {
    let prev = CATCHING.with(|c| c.replace(true));
    let r = std::panic::catch_unwind(std::panic::AssertUnwindSafe(f));
    CATCHING.with(|c| c.set(prev));
    match r {
        Ok(v) => Ok(v),
        Err(_) => Err(LAST_PANIC
            .with(|p| p.borrow_mut().take())
            .unwrap_or(PanicInfo {
                file: String::new(),
                line: 0,
                msg: "unknown panic".into(),
            })),
    }
}

pub fn worker_main() {
    // Take a private copy of stdout for the protocol and silence fd 1.
    unsafe {
        let saved = libc::dup(1);
        let devnull = libc::open(b"/dev/null\0".as_ptr() as *const libc::c_char, libc::O_WRONLY);
        libc::dup2(devnull, 1);
        libc::close(devnull);
        *OUT.lock().unwrap() = Some(File::from_raw_fd(saved));
    }
    install_hook();
    let stdin = std::io::stdin();
    for line in stdin.lock().lines() {
        let line = match line {
            Ok(l) => l,
            Err(_) => break,
        };
        if line.trim().is_empty() {
            continue;
        }
        let req: Request = match serde_json::from_str(&line) {
            Ok(r) => r,
            Err(e) => {
                emit('E', &format!("\"bad request: {e}\""));
                continue;
            }
        };
        handle(req);
    }
}

fn handle(req: Request) {
    match req {
        Request::Range {
            scenario,
            base,
            start,
            end,
            opts,
            want_samples,
        } => {
            let sc = scenarios::get(&scenario).expect("unknown scenario");
            EXIT_ON_PANIC.with(|c| c.set(sc.process_isolated()));
            let mut res = RangeResult::default();
            let switches: Vec<String> = opts.avoid.clone();
            for index in start..end {
                let seed = crate::rng::mix(base, sc.id(), index);
                // half of the runs steer around known findings, half do not
                let mut o = opts.clone();
                if index % 2 == 1 {
                    o.avoid.clear();
                } else {
                    o.avoid = switches.clone();
                }
                if sc.process_isolated() {
                    emit('B', &format!("{index}"));
                }
                let (case, outcome) = sc.run_seed(seed, &o);
                if sc.process_isolated() {
                    // drop the chain of exiting hooks run_internet has built
                    install_hook();
                }
                res.runs += 1;
                for (k, v) in &outcome.counters {
                    *res.counters.entry(k.clone()).or_insert(0) += v;
                }
                res.sim_ms += outcome.sim_ms;
                res.steps += outcome.steps;
                if outcome.nontrivial {
                    res.nontrivial_runs += 1;
                }
                if outcome.diverged {
                    res.diverged += 1;
                }
                res.hashes.push((outcome.trace_hash, outcome.nontrivial));
                res.shapes.push(outcome.shape_hash);
                res.states.extend(outcome.states.iter().copied());
                if let Some(v) = outcome.primary() {
                    if res.failures.len() < 40 {
                        res.failures.push(Failure {
                            index,
                            seed,
                            violation: v.clone(),
                        });
                    } else {
                        *res.counters.entry("failures_not_listed".into()).or_insert(0) += 1;
                    }
                }
                if want_samples > 0 && (res.samples.len() as u64) < want_samples {
                    res.samples.push(case);
                }
            }
            res.states.sort_unstable();
            res.states.dedup();
            emit('R', &serde_json::to_string(&res).unwrap());
        }
        Request::Seed {
            scenario,
            seed,
            opts,
        } => {
            let sc = scenarios::get(&scenario).expect("unknown scenario");
            EXIT_ON_PANIC.with(|c| c.set(sc.process_isolated()));
            emit('B', "0");
            let (case, outcome) = sc.run_seed(seed, &opts);
            if sc.process_isolated() {
                install_hook();
            }
            let r = CaseResult { case, outcome };
            emit('R', &serde_json::to_string(&r).unwrap());
        }
        Request::Case { scenario, case } => {
            let sc = scenarios::get(&scenario).expect("unknown scenario");
            EXIT_ON_PANIC.with(|c| c.set(sc.process_isolated()));
            emit('B', "0");
            let outcome = sc.run_case(&case);
            if sc.process_isolated() {
                install_hook();
            }
            let r = CaseResult { case, outcome };
            emit('R', &serde_json::to_string(&r).unwrap());
        }
        Request::Minimise {
            scenario,
            case,
            class,
            max_attempts,
        } => {
            let sc = scenarios::get(&scenario).expect("unknown scenario");
            assert!(!sc.process_isolated());
            let (case, outcome, attempts) = minimise_local(sc, case, &class, max_attempts);
            let mut outcome = outcome;
            outcome.add("minimise_attempts", attempts);
            let r = CaseResult { case, outcome };
            emit('R', &serde_json::to_string(&r).unwrap());
        }
    }
}

/// Greedy reduction: repeatedly take the first candidate that still fails in
/// the same class.
pub fn minimise_local(
    sc: &dyn Scenario,
    case: Value,
    class: &str,
    max_attempts: u64,
) -> (Value, Outcome, u64) {
    let mut best = case;
    let mut best_outcome = sc.run_case(&best);
    let mut attempts = 0;
    'outer: loop {
        let candidates = sc.shrink(&best);
        for cand in candidates {
            if attempts >= max_attempts {
                break 'outer;
            }
            attempts += 1;
            let o = sc.run_case(&cand);
            if o.violations.iter().any(|v| v.class == class) {
                best = cand;
                best_outcome = o;
                continue 'outer;
            }
        }
        break;
    }
    (best, best_outcome, attempts)
}
