//! C19: a network description means what it says.
//! `Parse` is the direct-drive clause (render -> parse round trip, structural
//! errors are rejected), `Run` the simulation clause (a generated valid
//! description is run on virtual time and every described message arrives).

use crate::common::*;
use crate::e2::*;
use crate::rng::{fnv, Rng, FNV_INIT};
use crate::sim::{self, E2Case};
use crate::worker::catching;
use elvis::ndl::parsing::parsing_data as pd;
use elvis_core::protocols::Ipv4;
use elvis_core::ExitStatus;
use serde::{Deserialize, Serialize};
use serde_json::Value;
use std::any::TypeId;
use std::collections::HashMap;
use std::time::Duration;

type Args = Vec<(String, String)>;

#[derive(Serialize, Deserialize, Clone, Debug, PartialEq)]
pub struct TNet {
    pub id: String,
    pub ips: Vec<Args>,
}

#[derive(Serialize, Deserialize, Clone, Debug, PartialEq)]
pub struct TMachine {
    pub opts: Args,
    pub nets: Vec<Args>,
    pub protocols: Vec<Args>,
    pub apps: Vec<Args>,
    /// order in which the three sections are written: a permutation of 0,1,2
    pub order: [u8; 3],
}

#[derive(Serialize, Deserialize, Clone, Debug, PartialEq)]
pub struct Tree {
    pub nets: Vec<TNet>,
    pub machines: Vec<TMachine>,
    /// 0 tabs, 1 four spaces, 2 tabs + CRLF, 3 four spaces + CRLF
    pub style: u8,
    pub machines_first: bool,
    /// structural mutation applied while rendering (None = well formed)
    #[serde(default)]
    pub mutation: Option<String>,
}

fn args(list: &Args) -> String {
    list.iter().map(|(k, v)| format!(" {k}='{v}'")).collect()
}

pub fn render(t: &Tree) -> String {
    let unit = if t.style % 2 == 0 { "\t" } else { "    " };
    let nl = if t.style >= 2 { "\r\n" } else { "\n" };
    let ind = |n: usize| unit.repeat(n);
    let m = t.mutation.as_deref();
    let mut nets = String::new();
    nets += &format!("[Networks]{nl}");
    for (k, n) in t.nets.iter().enumerate() {
        let id = if m == Some("duplicate-network-id") && k == t.nets.len() - 1 { t.nets[0].id.clone() } else { n.id.clone() };
        nets += &format!("{}[Network id='{}']{nl}", ind(1), id);
        for ip in &n.ips {
            let depth = if m == Some("ip-wrong-nesting") { 3 } else { 2 };
            nets += &format!("{}[IP{}]{nl}", ind(depth), args(ip));
        }
    }
    if m == Some("duplicate-network-id") && t.nets.len() == 1 {
        nets += &format!("{}[Network id='{}']{nl}{}[IP ip='9.9.9.9']{nl}", ind(1), t.nets[0].id, ind(2));
    }
    let mut machines = String::new();
    machines += &format!("[Machines]{nl}");
    for (k, mc) in t.machines.iter().enumerate() {
        let first = k == 0;
        let mut o = args(&mc.opts);
        if first && m == Some("duplicate-argument") {
            o += " name='again' name='again'";
        }
        let mdepth = if first && m == Some("machine-wrong-nesting") { 2 } else { 1 };
        machines += &format!("{}[Machine{}]{nl}", ind(mdepth), o);
        for sec in mc.order {
            match sec {
                0 => {
                    let ty = if first && m == Some("unknown-section-type") { "Nettworks" } else { "Networks" };
                    machines += &format!("{}[{ty}]{nl}", ind(2));
                    for n in &mc.nets {
                        machines += &format!("{}[Network{}]{nl}", ind(3), args(n));
                    }
                }
                1 => {
                    if first && m == Some("missing-required-section") {
                        continue;
                    }
                    machines += &format!("{}[Protocols]{nl}", ind(2));
                    for p in &mc.protocols {
                        let ty = if first && m == Some("wrong-child-type") { "Application" } else { "Protocol" };
                        machines += &format!("{}[{ty}{}]{nl}", ind(3), args(p));
                    }
                }
                _ => {
                    machines += &format!("{}[Applications]{nl}", ind(2));
                    for a in &mc.apps {
                        let depth = if first && m == Some("application-wrong-nesting") { 4 } else { 3 };
                        machines += &format!("{}[Application{}]{nl}", ind(depth), args(a));
                    }
                }
            }
        }
    }
    if t.machines_first {
        machines + &nets
    } else {
        nets + &machines
    }
}

fn params(a: &Args) -> pd::Params {
    a.iter().cloned().collect()
}

pub fn expected_sim(t: &Tree) -> pd::Sim {
    let mut networks: pd::Networks = HashMap::new();
    for n in &t.nets {
        networks.insert(
            n.id.clone(),
            pd::Network {
                dectype: pd::DecType::Network,
                options: params(&vec![("id".to_string(), n.id.clone())]),
                ip: n.ips.iter().map(|ip| pd::IP { dectype: pd::DecType::IP, options: params(ip) }).collect(),
            },
        );
    }
    let machines = t
        .machines
        .iter()
        .map(|m| pd::Machine {
            dectype: pd::DecType::Machine,
            options: Some(params(&m.opts)),
            interfaces: pd::Interfaces {
                networks: m.nets.iter().map(|n| pd::MachineNetwork { dectype: pd::DecType::Network, options: params(n) }).collect(),
                protocols: m.protocols.iter().map(|p| pd::Protocol { dectype: pd::DecType::Protocol, options: params(p) }).collect(),
                applications: m.apps.iter().map(|a| pd::Application { dectype: pd::DecType::Application, options: params(a) }).collect(),
            },
        })
        .collect();
    pd::Sim { networks, machines }
}

fn tmp_path(tag: &str) -> String {
    format!("/tmp/dst-ndl-{}-{tag}.ndl", std::process::id())
}

fn value(rng: &mut Rng, wild: bool) -> String {
    let words = ["Hello!", "a b", "x", "Hello this is an awesome test message!", "1=2", "[brackets", "tab\there", "q\\'uote", "", "ümlaut", "two  spaces", "four    spaces", "semi;colon"];
    if wild && rng.chance(1, 3) {
        let n = rng.below(12);
        let charset: Vec<char> = "abcXYZ019 _-.,:;!?()[{}=+*/<>|~@#$%^&".chars().collect();
        (0..n).map(|_| *rng.pick(&charset)).collect()
    } else {
        rng.pick(&words).to_string()
    }
}

fn s(x: &str) -> String {
    x.to_string()
}

/// A random well-formed tree for the parse clause (need not be runnable).
pub fn gen_parse_tree(rng: &mut Rng, allow_four_spaces_in_values: bool) -> Tree {
    let mut nets = vec![];
    for k in 0..1 + rng.below(3) {
        let mut ips = vec![];
        for j in 0..1 + rng.below(3) {
            if rng.chance(1, 2) {
                ips.push(vec![(s("range"), format!("123.45.{}.{}-{}", 60 + k, 1 + 20 * j, 15 + 20 * j))]);
            } else {
                ips.push(vec![(s("ip"), format!("192.168.{k}.{}", 1 + j))]);
            }
        }
        nets.push(TNet { id: format!("{}", [5, 1, 33, 7][k as usize % 4] + k), ips });
    }
    let mut machines = vec![];
    for i in 0..1 + rng.below(6) {
        let mut opts = vec![];
        if rng.chance(3, 4) {
            opts.push((s("name"), format!("m{i}")));
        }
        if rng.chance(1, 3) {
            opts.push((s("count"), format!("{}", 1 + rng.below(5))));
        }
        if rng.chance(1, 5) {
            opts.push((s("auto-protocol"), s(*rng.pick(&["true", "false"]))));
        }
        let mnets = (0..1 + rng.below(2)).map(|_| vec![(s("id"), rng.pick(&nets).id.clone())]).collect();
        let mut protocols = vec![vec![(s("name"), s("IPv4"))]];
        if rng.chance(3, 4) {
            protocols.push(vec![(s("name"), s("UDP"))]);
        }
        if rng.chance(1, 4) {
            protocols.push(vec![(s("name"), s("ARP"))]);
        }
        let mut apps = vec![];
        for _ in 0..1 + rng.below(2) {
            let mut v = value(rng, true);
            if !allow_four_spaces_in_values {
                while v.contains("  ") {
                    v = v.replace("  ", " ");
                }
            }
            apps.push(match rng.below(4) {
                0 => vec![(s("name"), s("send_message")), (s("message"), v), (s("to"), s("m0")), (s("port"), s("0xbeef"))],
                1 => vec![(s("name"), s("capture")), (s("ip"), s("123.45.60.3")), (s("port"), s("48879")), (s("message_count"), s("2"))],
                2 => vec![(s("name"), s("forward")), (s("ip"), s("123.45.60.4")), (s("to"), s("10.0.0.1")), (s("local_port"), s("0xbeef")), (s("remote_port"), s("0xface"))],
                _ => vec![(s("name"), s("ping_pong")), (s("starter"), s("true")), (s("ip"), s("123.45.60.5")), (s("to"), v.replace(' ', "_")), (s("local_port"), s("1")), (s("remote_port"), s("2"))],
            });
        }
        let mut order = [0u8, 1, 2];
        for k in (1..3).rev() {
            order.swap(k, rng.below(k as u64 + 1) as usize);
        }
        machines.push(TMachine { opts, nets: mnets, protocols, apps, order });
    }
    Tree {
        nets,
        machines,
        style: rng.below(4) as u8,
        machines_first: rng.chance(1, 4),
        mutation: None,
    }
}

const MUTATIONS: [&str; 9] = [
    "duplicate-network-id",
    "ip-wrong-nesting",
    "duplicate-argument",
    "machine-wrong-nesting",
    "unknown-section-type",
    "missing-required-section",
    "wrong-child-type",
    "application-wrong-nesting",
    "none",
];

pub struct Parse;
pub static C19_PARSE: Parse = Parse;

fn run_parse(t: &Tree) -> Outcome {
    let mut out = Outcome::default();
    let text = render(t);
    let mut h = FNV_INIT;
    fnv(&mut h, text.as_bytes());
    out.trace_hash = h;
    out.shape_hash = t.style as u64 | (t.machines.len() as u64) << 4 | (t.nets.len() as u64) << 8 | (t.machines_first as u64) << 12;
    out.steps = 1;
    let path = tmp_path("parse");
    if std::fs::write(&path, &text).is_err() {
        out.violate(Violation::new("harness-panic", "tmp-write", "cannot write the temporary NDL file".into()));
        return out;
    }
    let parse = || catching(|| elvis::ndl::core_parser(path.clone()));
    let first = parse();
    let second = parse();
    let _ = std::fs::remove_file(&path);
    let (first, second) = match (first, second) {
        (Ok(a), Ok(b)) => (a, b),
        (Err(p), _) | (_, Err(p)) => {
            out.violate(Violation::new("panic", &panic_class(&p), format!("core_parser panicked at {}:{}: {}", p.file, p.line, p.msg)));
            return out;
        }
    };
    if first != second {
        out.violate(Violation::new("parse-not-a-function-of-the-text", "", "two parses of the same file differ".into()));
    }
    match &t.mutation {
        None => {
            out.count(&format!("well_formed_style_{}", t.style));
            match first {
                Ok(sim) => {
                    let want = expected_sim(t);
                    if sim != want {
                        let what = if sim.networks != want.networks {
                            "networks"
                        } else if sim.machines.len() != want.machines.len() {
                            "machine-count"
                        } else {
                            "machine-contents"
                        };
                        let four = text.lines().any(|l| l.trim_start().contains("    "));
                        out.violate(Violation::new(
                            "round-trip",
                            &format!("{what}{}", if four { "|four-spaces-inside-a-value" } else { "" }),
                            format!("parse(render(tree)) differs from tree in {what}; text:\n{}", text.chars().take(600).collect::<String>()),
                        ));
                    }
                }
                Err(e) => out.violate(Violation::new(
                    "round-trip",
                    "well-formed-description-rejected",
                    format!("a well-formed description was rejected: {}\ntext:\n{}", e.chars().take(200).collect::<String>(), text.chars().take(600).collect::<String>()),
                )),
            }
        }
        Some(m) => {
            out.nontrivial = true;
            out.count(&format!("mutation_{m}"));
            if first.is_ok() {
                out.violate(Violation::new(
                    "structural-error-accepted",
                    m,
                    format!("a description with the structural error '{m}' was accepted; text:\n{}", text.chars().take(600).collect::<String>()),
                ));
            }
        }
    }
    out
}

impl Scenario for Parse {
    fn id(&self) -> &'static str {
        "C19.parse"
    }

    fn run_seed(&self, seed: u64, opts: &RunOpts) -> (Value, Outcome) {
        let mut rng = Rng::new(seed);
        let mut t = gen_parse_tree(&mut rng, !opts.avoids("no_four_spaces_in_values"));
        let m = *rng.pick(&MUTATIONS);
        if m != "none" && rng.chance(1, 2) {
            t.mutation = Some(m.to_string());
        }
        let out = run_parse(&t);
        (serde_json::to_value(&t).unwrap(), out)
    }

    fn run_case(&self, case: &Value) -> Outcome {
        match serde_json::from_value::<Tree>(case.clone()) {
            Ok(t) => run_parse(&t),
            Err(e) => {
                let mut o = Outcome::default();
                o.violate(Violation::new("harness-panic", "bad-case", format!("{e}")));
                o
            }
        }
    }

    fn shrink(&self, case: &Value) -> Vec<Value> {
        let Ok(t) = serde_json::from_value::<Tree>(case.clone()) else {
            return vec![];
        };
        let mut out = vec![];
        for i in 0..t.machines.len() {
            if t.machines.len() > 1 {
                let mut x = t.clone();
                x.machines.remove(i);
                out.push(x);
            }
            if t.machines[i].apps.len() > 1 {
                let mut x = t.clone();
                x.machines[i].apps.pop();
                out.push(x);
            }
            if !t.machines[i].opts.is_empty() {
                let mut x = t.clone();
                x.machines[i].opts.pop();
                out.push(x);
            }
        }
        for i in 0..t.nets.len() {
            if !t.nets[i].ips.is_empty() {
                let mut x = t.clone();
                x.nets[i].ips.pop();
                out.push(x);
            }
        }
        if t.style != 0 {
            let mut x = t.clone();
            x.style = 0;
            out.push(x);
        }
        if t.machines_first {
            let mut x = t.clone();
            x.machines_first = false;
            out.push(x);
        }
        out.into_iter().map(|c| serde_json::to_value(&c).unwrap()).collect()
    }

    fn chunk(&self, _tier: &Tier) -> u64 {
        1000
    }

    fn budget(&self, tier: &Tier) -> (u64, u64) {
        match tier {
            Tier::Quick => (300_000, 40),
            Tier::Thorough => (30_000_000, 600),
        }
    }

    fn avoid_switches(&self) -> Vec<&'static str> {
        vec!["no_four_spaces_in_values"]
    }

    fn describe(&self) -> ScenarioInfo {
        ScenarioInfo {
            engine: "direct".into(),
            level: "exploration".into(),
            rule: "direct-drive (no schedule, no fault): generated description trees (1..3 networks with ip/range entries, 1..6 machines with name/count/auto-protocol options, sections in any order, send_message/capture/forward/ping_pong applications, argument values with spaces, brackets, '=', escaped quotes, empty values), rendered with tabs, 4 spaces, and CRLF, parsed twice; parse(render(tree)) must equal tree; each of 8 structural mutations must be rejected; non-trivial = a mutated description".into(),
            real_components: vec!["ndl::core_parser (parser.rs, parser_util.rs, network_parser.rs, machine_parser.rs, parsing_data.rs)".into()],
            stub_components: vec![],
            fault_kinds: vec![],
            assumptions: vec!["argument values contain neither a bare quote, a bare backslash (the grammar's only escape is \\') nor ']' (a section ends at the first closing bracket)".into()],
        }
    }
}

// ---------------------------------------------------------------------------
// simulation clause

pub struct Run;

/// A runnable description: every message a sender is told to send is awaited by a capture.
fn gen_run_tree(expect: &mut Vec<([u8; 4], u16, Vec<u8>, u32)>) -> Tree {
    let n_nets = 1 + sim::choose(2) as usize;
    let mut nets = vec![];
    for k in 0..n_nets {
        // the pool as a range of last octets or as a subnet
        let mut ips = if sim::chance(1, 3) {
            sim::count("probe_network_pool_given_as_subnet");
            vec![vec![(s("subnet"), format!("123.45.{}.0/26", 60 + k))]]
        } else {
            vec![vec![(s("range"), format!("123.45.{}.1-40", 60 + k))]]
        };
        if sim::chance(1, 3) {
            ips.push(vec![(s("ip"), format!("99.1.{k}.7"))]);
        }
        nets.push(TNet { id: format!("{}", 3 + 4 * k), ips });
    }
    let msgs = ["Hello!", "Hello this is an awesome test message!", "a=b", "x", "[bracket", "it\\'s", "semi;colon here"];
    let n_recv = 1 + sim::choose(3) as usize;
    let by_factory = n_recv > 1 || sim::chance(1, 2);
    // ARP per group (a receiver and the senders that write to it): 0 none, 1 explicit, 2 by
    // auto-protocol='true', 3 none with an explicit auto-protocol='false'. Every machine makes its
    // own choice among the modes that agree with its group on whether ARP is present.
    let uniform = sim::chance(1, 2);
    let base_mode = sim::choose(4);
    let group_arp: Vec<bool> = (0..n_recv).map(|_| if uniform { base_mode == 1 || base_mode == 2 } else { sim::chance(1, 2) }).collect();
    if group_arp.iter().any(|a| *a) && group_arp.iter().any(|a| !*a) {
        sim::count("probe_machines_with_and_without_arp");
    }
    let pick_mode = |arp: bool| -> u64 {
        if uniform {
            base_mode
        } else if arp {
            1 + sim::choose(2)
        } else {
            3 * sim::choose(2)
        }
    };
    let mut machines = vec![];
    let mut recv_info = vec![]; // (name, ip, port, net index)
    for i in 0..n_recv {
        let net = sim::choose(n_nets as u64) as usize;
        let ip = [123, 45, 60 + net as u8, 2 + i as u8];
        let port = *[0xbeefu16, 0xface, 4242].get(sim::choose(3) as usize).unwrap();
        recv_info.push((format!("recv{i}"), ip, port, net));
    }
    // senders: each targets one receiver, by name or by address; total per receiver decides its count
    let n_send = 1 + sim::choose(3) as usize;
    let single_message_capture = !by_factory && n_send == 1;
    let mut counts = vec![0u32; n_recv];
    let mut senders = vec![];
    for j in 0..n_send {
        let r = sim::choose(n_recv as u64) as usize;
        let count = if single_message_capture { 1 } else { 1 + sim::choose(5) as u32 };
        let msg = msgs[sim::choose(msgs.len() as u64) as usize];
        let by_name = sim::chance(1, 2);
        counts[r] += count;
        senders.push((j, r, count, msg, by_name));
        expect.push((recv_info[r].1, recv_info[r].2, msg.replace("\\'", "\\'").into_bytes(), count));
    }
    let mut order_pick = || {
        let mut order = [0u8, 1, 2];
        for k in (1..3).rev() {
            order.swap(k, sim::choose(k as u64 + 1) as usize);
        }
        order
    };
    let auto_opt = |opts: &mut Vec<(String, String)>, mode: u64| {
        if mode == 2 {
            opts.push((s("auto-protocol"), s("true")));
        }
        if mode == 3 {
            opts.push((s("auto-protocol"), s("false")));
        }
    };
    let protos = |with_arp: u64| {
        let mut p = vec![vec![(s("name"), s("IPv4"))], vec![(s("name"), s("UDP"))]];
        // auto-protocol='true' supplies IPv4 (and ARP) when the description leaves them out
        if with_arp == 2 && sim::chance(1, 2) {
            p.remove(0);
            sim::count("probe_ipv4_left_to_auto_protocol");
        }
        if with_arp == 1 {
            p.push(vec![(s("name"), s("ARP"))]);
        }
        p
    };
    for (i, (name, ip, port, net)) in recv_info.iter().enumerate() {
        let mut opts = vec![(s("name"), name.clone())];
        let with_arp = pick_mode(group_arp[i]);
        auto_opt(&mut opts, with_arp);
        let ipstr = format!("{}.{}.{}.{}", ip[0], ip[1], ip[2], ip[3]);
        let mut app = vec![(s("name"), s("capture")), (s("ip"), ipstr), (s("port"), format!("{port}"))];
        if single_message_capture && counts[i] == 1 {
            app.push((s("type"), s("message")));
            app.push((s("message"), senders[0].3.to_string()));
        } else {
            app.push((s("type"), s("count")));
            app.push((s("message_count"), format!("{}", counts[i].max(1))));
        }
        if by_factory {
            app.push((s("factory"), s("f1")));
        }
        machines.push(TMachine {
            opts,
            nets: vec![vec![(s("id"), nets[*net].id.clone())]],
            protocols: protos(with_arp),
            apps: vec![app],
            order: order_pick(),
        });
    }
    // a receiver nobody writes to would keep the factory waiting: give it a sender
    for (i, c) in counts.clone().iter().enumerate() {
        if *c == 0 {
            let msg = "filler";
            counts[i] = 1;
            senders.push((100 + i, i, 1, msg, false));
            expect.push((recv_info[i].1, recv_info[i].2, msg.as_bytes().to_vec(), 1));
        }
    }
    for (j, r, count, msg, by_name) in senders {
        let (rname, rip, rport, rnet) = &recv_info[r];
        // a quarter of the senders reach their receiver through a forward application
        let mut hop: Option<(String, [u8; 4], u16)> = None;
        if j < 100 && sim::chance(1, 4) {
            sim::count("probe_sender_goes_through_a_forwarder");
            let fname = format!("fwd{j}");
            let fip = [123, 45, 60 + *rnet as u8, 20 + j as u8];
            let fport = 0x7000 + j as u16;
            let mut opts = vec![(s("name"), fname.clone())];
            let mode = pick_mode(group_arp[r]);
            auto_opt(&mut opts, mode);
            let to = if sim::chance(1, 2) { rname.clone() } else { format!("{}.{}.{}.{}", rip[0], rip[1], rip[2], rip[3]) };
            machines.push(TMachine {
                opts,
                nets: vec![vec![(s("id"), nets[*rnet].id.clone())]],
                protocols: protos(mode),
                apps: vec![vec![
                    (s("name"), s("forward")),
                    (s("ip"), format!("{}.{}.{}.{}", fip[0], fip[1], fip[2], fip[3])),
                    (s("to"), to),
                    (s("local_port"), format!("{fport}")),
                    (s("remote_port"), format!("{rport}")),
                ]],
                order: order_pick(),
            });
            expect.push((fip, fport, msg.replace("\\'", "\\'").into_bytes(), count));
            hop = Some((fname, fip, fport));
        }
        let (rname, rip, rport) = match &hop {
            Some((n, ip, p)) => (n, ip, p),
            None => (rname, rip, rport),
        };
        let mut opts = vec![(s("name"), format!("send{j}"))];
        if count > 1 || sim::chance(1, 3) {
            opts.push((s("count"), format!("{count}")));
        }
        let with_arp = pick_mode(group_arp[r]);
        auto_opt(&mut opts, with_arp);
        let to = if by_name { rname.clone() } else { format!("{}.{}.{}.{}", rip[0], rip[1], rip[2], rip[3]) };
        let port = if sim::chance(1, 2) { format!("{rport}") } else { format!("0x{rport:x}") };
        machines.push(TMachine {
            opts,
            nets: vec![vec![(s("id"), nets[*rnet].id.clone())]],
            protocols: protos(with_arp),
            apps: vec![vec![(s("name"), s("send_message")), (s("message"), s(msg)), (s("to"), to), (s("port"), port)]],
            order: order_pick(),
        });
    }
    // mix the order of machines
    for k in (1..machines.len()).rev() {
        machines.swap(k, sim::choose(k as u64 + 1) as usize);
    }
    Tree {
        nets,
        machines,
        style: sim::choose(4) as u8,
        machines_first: false,
        mutation: None,
    }
}

/// A runnable description that consists of a ping_pong pair: the starter sends a counter of 255,
/// each side answers with the counter minus one, the side that reaches zero ends the run. The two
/// applications are wired by name or by address; `expect` gets (receiver ip, port, first payload octet).
fn gen_pingpong_tree(expect: &mut Vec<([u8; 4], u16, u8)>) -> Tree {
    let n_nets = 1 + sim::choose(2) as usize;
    let mut nets = vec![];
    for k in 0..n_nets {
        let ips = if sim::chance(1, 3) {
            vec![vec![(s("subnet"), format!("123.45.{}.0/26", 60 + k))]]
        } else {
            vec![vec![(s("range"), format!("123.45.{}.1-40", 60 + k))]]
        };
        nets.push(TNet { id: format!("{}", 3 + 4 * k), ips });
    }
    let net = sim::choose(n_nets as u64) as usize;
    let ip = [[123, 45, 60 + net as u8, 2 + sim::choose(10) as u8], [123, 45, 60 + net as u8, 20 + sim::choose(10) as u8]];
    let ports = [*[0xbeefu16, 1, 4242].get(sim::choose(3) as usize).unwrap(), *[0xfaceu16, 2, 4243].get(sim::choose(3) as usize).unwrap()];
    // ARP: both machines or neither (0 none, 1 explicit, 2 auto-protocol='true', 3 explicit auto-protocol='false')
    let arp = sim::chance(1, 2);
    let names = ["ping", "pong"];
    // which side starts: the first or the second machine of the pair
    let starter = sim::choose(2) as usize;
    let mut machines = vec![];
    for i in 0..2usize {
        let mode = if arp { 1 + sim::choose(2) } else { 3 * sim::choose(2) };
        let mut opts = vec![(s("name"), s(names[i]))];
        if mode == 2 {
            opts.push((s("auto-protocol"), s("true")));
        }
        if mode == 3 {
            opts.push((s("auto-protocol"), s("false")));
        }
        let mut protocols = vec![vec![(s("name"), s("IPv4"))], vec![(s("name"), s("UDP"))]];
        if mode == 1 {
            protocols.push(vec![(s("name"), s("ARP"))]);
        }
        let o = 1 - i;
        let to = if sim::chance(1, 2) { s(names[o]) } else { format!("{}.{}.{}.{}", ip[o][0], ip[o][1], ip[o][2], ip[o][3]) };
        let fmt_port = |p: u16| if sim::chance(1, 2) { format!("{p}") } else { format!("0x{p:x}") };
        let mut order = [0u8, 1, 2];
        for k in (1..3).rev() {
            order.swap(k, sim::choose(k as u64 + 1) as usize);
        }
        machines.push(TMachine {
            opts,
            nets: vec![vec![(s("id"), nets[net].id.clone())]],
            protocols,
            apps: vec![vec![
                (s("name"), s("ping_pong")),
                (s("starter"), s(if i == starter { *["true", "t", "True"].get(sim::choose(3) as usize).unwrap() } else { *["false", "f"].get(sim::choose(2) as usize).unwrap() })),
                (s("ip"), format!("{}.{}.{}.{}", ip[i][0], ip[i][1], ip[i][2], ip[i][3])),
                (s("to"), to),
                (s("local_port"), fmt_port(ports[i])),
                (s("remote_port"), fmt_port(ports[o])),
            ]],
            order,
        });
    }
    // counter 255 goes to the machine that does not start, 254 comes back, ... 1 is the last datagram
    for c in (1..=255u32).rev() {
        let to = if (255 - c) % 2 == 0 { 1 - starter } else { starter };
        expect.push((ip[to], ports[to], c as u8));
    }
    if sim::chance(1, 2) {
        machines.swap(0, 1);
    }
    Tree {
        nets,
        machines,
        style: sim::choose(4) as u8,
        machines_first: false,
        mutation: None,
    }
}

impl E2Run for Run {
    fn id(&self) -> &'static str {
        "C19"
    }

    fn run(&self, case: &E2Case, _opts: &RunOpts) -> Outcome {
        let expect: std::sync::Arc<std::sync::Mutex<Vec<([u8; 4], u16, Vec<u8>, u32)>>> = Default::default();
        let text_cell: std::sync::Arc<std::sync::Mutex<String>> = Default::default();
        let expect_pp: std::sync::Arc<std::sync::Mutex<Vec<([u8; 4], u16, u8)>>> = Default::default();
        let (e2, t2, e3) = (expect.clone(), text_cell.clone(), expect_pp.clone());
        let (status, state) = sim::run_sim(case, default_cfg(), move || async move {
            draw_scheduler_knobs();
            let delay_pm = *[0u64, 300].get(sim::choose(2) as usize).unwrap();
            sim::with_state(|s| {
                s.plan = sim::FaultPlan {
                    delay: delay_pm,
                    max_delay_ms: 100,
                    ..Default::default()
                }
            });
            let mut ex = vec![];
            // one description in eight is a ping_pong pair (its end of run is the counter reaching zero)
            let tree = if sim::chance(1, 8) {
                sim::count("probe_ping_pong_description");
                let mut pp = vec![];
                let t = gen_pingpong_tree(&mut pp);
                *e3.lock().unwrap() = pp;
                t
            } else {
                gen_run_tree(&mut ex)
            };
            let text = render(&tree);
            *e2.lock().unwrap() = ex;
            *t2.lock().unwrap() = text.clone();
            let path = tmp_path("run");
            std::fs::write(&path, &text).expect("tmp file");
            let r = elvis::ndl::generate_and_run_sim(path.clone(), Some(Duration::from_secs(20))).await;
            let _ = std::fs::remove_file(&path);
            r
        });
        let mut out = Outcome::default();
        finish(&state, &mut out);
        let text = text_cell.lock().unwrap().clone();
        let excerpt: String = text.chars().take(900).collect();
        match status {
            Some(Some(ExitStatus::Exited)) => {}
            Some(None) => {
                out.violate(Violation::new("valid-description-rejected", "", format!("the generated description was rejected by the parser:\n{excerpt}")));
                return out;
            }
            other => {
                out.violate(Violation::new(
                    "did-not-end-normally",
                    &format!("{:?}", other.clone().flatten()).chars().filter(|c| c.is_alphabetic()).collect::<String>(),
                    format!("running the description returned {other:?} instead of Some(Exited):\n{excerpt}"),
                ));
                return out;
            }
        }
        // every described message was on the wire, addressed to the described receiver
        let ipv4 = TypeId::of::<Ipv4>();
        // ping_pong: the counters 255, 254, ... 1 went back and forth in this order, each to the described party
        {
            let pp = expect_pp.lock().unwrap();
            if !pp.is_empty() {
                let seen: Vec<([u8; 4], u16, u8)> = state
                    .frames
                    .iter()
                    .filter(|f| f.protocol == ipv4 && f.bytes.len() == 29 && f.bytes[9] == 17)
                    .map(|f| ([f.bytes[16], f.bytes[17], f.bytes[18], f.bytes[19]], u16::from_be_bytes([f.bytes[22], f.bytes[23]]), f.bytes[28]))
                    .collect();
                out.add("described_messages", pp.len() as u64);
                if seen != *pp {
                    let at = (0..pp.len().min(seen.len())).find(|i| seen[*i] != pp[*i]).unwrap_or(pp.len().min(seen.len()));
                    out.violate(Violation::new(
                        "ping-pong",
                        if seen.len() < pp.len() { "exchange-incomplete" } else { "exchange-differs" },
                        format!("the described ping_pong exchange is 255 datagrams with counters 255..1; {} datagrams appeared on the wire, first difference at position {at}: expected {:?}, seen {:?}:\n{excerpt}", seen.len(), pp.get(at), seen.get(at)),
                    ));
                }
            }
        }
        for (ip, port, payload, count) in expect.lock().unwrap().iter() {
            let n = state
                .frames
                .iter()
                .filter(|f| f.protocol == ipv4 && f.bytes.len() >= 28 && f.bytes[9] == 17 && f.bytes[16..20] == *ip && f.bytes[22..24] == port.to_be_bytes() && f.bytes[28..] == payload[..])
                .count() as u32;
            out.add("described_messages", *count as u64);
            if n < *count {
                out.violate(Violation::new(
                    "message-missing",
                    "",
                    format!("{count} message(s) {:?} to {ip:?}:{port} are described, {n} appeared on the wire:\n{excerpt}", String::from_utf8_lossy(payload)),
                ));
            }
        }
        out
    }

    fn budget(&self, tier: &Tier) -> (u64, u64) {
        match tier {
            Tier::Quick => (60_000, 40),
            Tier::Thorough => (5_000_000, 1200),
        }
    }

    fn describe(&self) -> ScenarioInfo {
        ScenarioInfo {
            engine: "E2 netsim".into(),
            level: "exploration".into(),
            rule: "one run = a generated runnable description (1..2 networks with range/ip pools, 1..3 capture machines - counted captures in one factory, or one message-type capture - and 1..4 send_message machines with counts 1..5 wired by name or by address, a quarter of them through a forward machine; one description in eight is a ping_pong pair wired by name or address whose 255 datagrams must appear in order; pools given as range or subnet, ARP mode per machine (none / explicit / auto-protocol), sections and machines in any order, tabs / 4 spaces / CRLF) executed by generate_and_run_sim on virtual time under seeded frame delays and task-order perturbation; distinct = hash of decisions and frames".into(),
            real_components: vec!["ndl::generate_and_run_sim (parser, network/machine/application generators), SendMessage, Capture/CapFactory, Forward, PingPong, Udp, Ipv4, Arp, Pci, Network, run_internet".into()],
            stub_components: vec![],
            fault_kinds: vec!["frame delay".into(), "task-order perturbation".into()],
            assumptions: vec!["no loss: the statement promises arrival".into(), "a ping_pong pair is a description of its own (its end of run would cut the captures short)".into()],
        }
    }
}
