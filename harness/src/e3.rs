//! Engine E3 `fragsim`: discrete-event simulation around the real IPv4
//! `Reassembly`. Datagrams are fragmented by the real `fragmentation::fragment`
//! through chains of decreasing MTUs; the simulated network permutes,
//! interleaves, duplicates and loses fragments; reassembly timers are events
//! the scheduler places anywhere between arrivals. Serves C11.

use crate::common::*;
use crate::rng::{fnv, fnv_u64, Rng, FNV_INIT};
use crate::worker::catching;
use elvis_core::protocols::ipv4::fragmentation::{fragment, Fragments};
use elvis_core::protocols::ipv4::ipv4_parsing::{ControlFlags, Ipv4Header, TypeOfService};
use elvis_core::protocols::ipv4::verif_export::{Reassembly, ReceivePacketResult};
use elvis_core::protocols::ipv4::Ipv4Address;
use elvis_core::Message;
use serde::{Deserialize, Serialize};
use serde_json::Value;
use std::collections::BTreeMap;

pub struct E3;
pub static C11: E3 = E3;

#[derive(Serialize, Deserialize, Clone, Debug, PartialEq)]
pub struct Dgram {
    pub src: u8,
    pub dst: u8,
    pub proto: u8,
    pub id: u16,
    pub ttl: u8,
    pub len: u16,
    /// MTUs of the hops, decreasing
    pub mtus: Vec<u16>,
    /// pieces of intermediate hops arrive as well (overlapping fragments)
    pub parents: bool,
}

#[derive(Serialize, Deserialize, Clone, Debug, PartialEq)]
#[serde(tag = "ev")]
pub enum Ev {
    /// the clock advances by `dt` ms (due reassembly timers fire in deadline
    /// order), then fragment `f` (mod number of pieces) of datagram `d` arrives
    A {
        d: u8,
        f: u16,
        #[serde(default)]
        dt: u32,
    },
    /// the clock advances by `dt` ms and due timers fire
    T { dt: u32 },
}

#[derive(Serialize, Deserialize, Clone, Debug)]
pub struct Case {
    pub dgrams: Vec<Dgram>,
    pub events: Vec<Ev>,
}

type Key = (u8, u8, u8, u16);

fn key(d: &Dgram) -> Key {
    // two host numbers that `address_of` maps to one address are one host
    let canon = |k: u8| if k % 8 == 7 { k } else { k % 8 };
    (canon(d.src), canon(d.dst), d.proto, d.id)
}

fn byte_at(k: Key, off: u32) -> u8 {
    let mut h = FNV_INIT;
    fnv(&mut h, &[k.0, k.1, k.2]);
    fnv_u64(&mut h, k.3 as u64);
    fnv_u64(&mut h, off as u64);
    (h >> 24) as u8
}

/// Source and destination come from one table, so that pairs occur in both directions and
/// addresses differ in any one octet (or only in octet order).
fn address_of(k: u8) -> [u8; 4] {
    match k % 8 {
        0 => [10, 0, 0, 1],
        1 => [10, 0, 1, 1],
        2 => [10, 0, 0, 2],
        3 => [11, 0, 0, 1],
        4 => [1, 0, 0, 10],
        5 => [10, 1, 0, 1],
        6 => [10, 0, 1, 0],
        _ => [10, 0, 0, k],
    }
}

fn header_of(d: &Dgram) -> Ipv4Header {
    Ipv4Header {
        ihl: 5,
        type_of_service: TypeOfService::DEFAULT,
        total_length: d.len + 20,
        identification: d.id,
        fragment_offset: 0,
        flags: ControlFlags::DEFAULT,
        time_to_live: d.ttl,
        protocol: d.proto,
        checksum: 0,
        source: Ipv4Address::new(address_of(d.src)),
        destination: Ipv4Address::new(address_of(d.dst)),
    }
}

#[derive(Clone)]
struct Piece {
    header: Ipv4Header,
    body: Vec<u8>,
}

/// Reference partition of one piece for one MTU (what C10 states).
fn reference_fragment(p: &Piece, mtu: u16) -> Vec<Piece> {
    if p.header.total_length <= mtu {
        return vec![p.clone()];
    }
    let nfb = ((mtu - 20) / 8) as usize;
    let mut out = vec![];
    let mut off = 0usize;
    let total = p.body.len();
    while off < total {
        // whatever fits the MTU goes out as one piece (only earlier pieces
        // must be multiples of 8 octets)
        let n = if 20 + (total - off) <= mtu as usize {
            total - off
        } else {
            nfb * 8
        };
        let last = off + n == total;
        let mut h = p.header;
        h.total_length = 20 + n as u16;
        h.fragment_offset = p.header.fragment_offset + (off / 8) as u16;
        h.flags
            .set_is_last_fragment(last && p.header.flags.is_last_fragment());
        out.push(Piece {
            header: h,
            body: p.body[off..off + n].to_vec(),
        });
        off += n;
    }
    out
}

/// All pieces of a datagram that may arrive: the output of the last hop, plus
/// (when `parents`) the pieces of the earlier hops.
fn pieces_of(d: &Dgram, out: &mut Outcome) -> Result<Vec<Piece>, PanicInfo> {
    let k = key(d);
    let body: Vec<u8> = (0..d.len as u32).map(|o| byte_at(k, o)).collect();
    let mut level = vec![Piece {
        header: header_of(d),
        body,
    }];
    let mut all: Vec<Piece> = vec![];
    for (hop, &mtu) in d.mtus.iter().enumerate() {
        let mut next = vec![];
        for p in &level {
            let expect = reference_fragment(p, mtu);
            let (h, b) = (p.header, Message::new(p.body.clone()));
            let got = catching(|| fragment(h, b, mtu))?;
            let got: Vec<Piece> = match got {
                Fragments::Fragmented(v) => v
                    .into_iter()
                    .map(|(header, m)| Piece {
                        header,
                        body: m.to_vec(),
                    })
                    .collect(),
                Fragments::DontFragment((header, m)) => vec![Piece {
                    header,
                    body: m.to_vec(),
                }],
                Fragments::Discard => vec![],
            };
            let same = got.len() == expect.len()
                && got
                    .iter()
                    .zip(expect.iter())
                    .all(|(a, b)| a.header == b.header && a.body == b.body);
            if !same {
                if std::env::var("VERIF_TRACE").is_ok() {
                    eprintln!("C10 premise: piece {:?} len {} mtu {mtu}", p.header, p.body.len());
                    eprintln!("  got    {:?}", got.iter().map(|x| (x.header.fragment_offset, x.header.total_length, x.header.flags, x.body.len())).collect::<Vec<_>>());
                    eprintln!("  expect {:?}", expect.iter().map(|x| (x.header.fragment_offset, x.header.total_length, x.header.flags, x.body.len())).collect::<Vec<_>>());
                }
                // C10 is not claimed here: use the reference so that C11 stays sound
                out.count("premise_failed_C10_fragment_output_replaced");
            }
            next.extend(expect);
        }
        if d.parents && hop + 1 < d.mtus.len() {
            all.extend(next.iter().cloned());
        }
        level = next;
    }
    all.extend(level);
    Ok(all)
}

#[derive(Default)]
struct ModelBuf {
    /// byte ranges received since the last completion or cull
    ranges: Vec<(u32, u32)>,
    total: Option<u32>,
    live: bool,
    /// when the buffer must be gone if nothing else arrives: last arrival +
    /// the timeout the stack announced for it
    expiry: u64,
}

impl ModelBuf {
    fn covered(&self) -> bool {
        let Some(total) = self.total else {
            return false;
        };
        let mut r = self.ranges.clone();
        r.sort();
        let mut reach = 0u32;
        for (a, b) in r {
            if a > reach {
                return false;
            }
            reach = reach.max(b);
        }
        reach >= total
    }

    fn reset(&mut self) {
        self.ranges.clear();
        self.total = None;
        self.live = false;
    }
}

struct Timer {
    deadline: u64,
    seq: u64,
    fire: Box<dyn FnOnce(&mut Reassembly)>,
}

pub fn execute(case: &Case) -> Outcome {
    let mut out = Outcome::default();
    let mut shape = FNV_INIT;
    let mut trace = FNV_INIT;
    let mut pieces: Vec<Vec<Piece>> = vec![];
    for d in &case.dgrams {
        match pieces_of(d, &mut out) {
            Ok(p) => pieces.push(p),
            Err(p) => {
                out.violate(Violation::new(
                    "harness-panic",
                    "fragment-panicked",
                    format!("fragment() panicked at {}:{}: {}", p.file, p.line, p.msg),
                ));
                return out;
            }
        }
    }
    let mut reasm = Reassembly::new();
    let mut model: BTreeMap<Key, ModelBuf> = BTreeMap::new();
    let mut timers: Vec<Timer> = vec![];
    let mut timer_seq = 0u64;
    let mut now: u64 = 0;
    let mut arrivals_per_piece: BTreeMap<(Key, u16, usize), u32> = BTreeMap::new();
    // datagrams that share a buffer id but were fragmented differently give overlapping pieces
    let mut overlapping_sources = false;
    for (i, a) in case.dgrams.iter().enumerate() {
        if a.parents && a.mtus.len() > 1 {
            overlapping_sources = true;
        }
        for b in &case.dgrams[..i] {
            if key(a) == key(b) && a.mtus != b.mtus {
                overlapping_sources = true;
            }
        }
    }

    'events: for ev in &case.events {
        out.steps += 1;
        let dt = match *ev {
            Ev::A { dt, .. } => dt,
            Ev::T { dt } => dt,
        };
        now += dt as u64;
        // fire the timers that are due, in deadline order; after each group
        // with the same deadline the buffers must be those of the model
        loop {
            let Some(deadline) = timers
                .iter()
                .filter(|t| t.deadline <= now)
                .map(|t| t.deadline)
                .min()
            else {
                break;
            };
            let mut group: Vec<Timer> = vec![];
            let mut i = 0;
            while i < timers.len() {
                if timers[i].deadline == deadline {
                    group.push(timers.remove(i));
                } else {
                    i += 1;
                }
            }
            group.sort_by_key(|t| t.seq);
            for t in group {
                fnv(&mut shape, &[2]);
                out.count("timer_fired");
                let fire = t.fire;
                if let Err(pi) = catching(|| fire(&mut reasm)) {
                    out.violate(Violation::new(
                        "panic",
                        &panic_class(&pi),
                        format!("maybe_cull_segment panicked at {}:{}: {}", pi.file, pi.line, pi.msg),
                    ));
                    break 'events;
                }
            }
            // the model: buffers whose last arrival is a full timeout ago are gone
            for m in model.values_mut() {
                if m.live && m.expiry <= deadline {
                    out.count("probe_timer_expired_without_new_fragments");
                    m.reset();
                }
            }
            let live = model.values().filter(|m| m.live).count();
            let have = reasm.verif_buffers();
            if live != have {
                out.violate(Violation::new(
                    "buffer-lifetime",
                    if have < live {
                        "culled-while-fragments-kept-arriving"
                    } else {
                        "not-culled-on-expiry"
                    },
                    format!("at t={deadline}ms the reassembly timers due fired: {have} buffers remain allocated, the reference model has {live} (a buffer lives until its last arrival plus the announced timeout)"),
                ));
                break 'events;
            }
            if live > 0 {
                out.count("probe_stale_timer_while_fragments_keep_arriving");
            }
        }
        let Ev::A { d, f, .. } = *ev else {
            continue;
        };
        let di = d as usize % case.dgrams.len();
        let dg = &case.dgrams[di];
        let ps = &pieces[di];
        if ps.is_empty() {
            continue;
        }
        let fi = f as usize % ps.len();
        let p = &ps[fi];
        let k = key(dg);
        fnv(&mut shape, &[1, di as u8]);
        fnv_u64(&mut trace, ((di as u64) << 32) | fi as u64);
        fnv_u64(&mut trace, now);
        let n = arrivals_per_piece
            .entry((k, p.header.fragment_offset, p.body.len()))
            .or_insert(0);
        *n += 1;
        if *n > 1 {
            out.count("fault_duplicate_fragment");
            out.nontrivial = true;
        }
        let whole = p.header.fragment_offset == 0 && p.header.flags.is_last_fragment();
        let m = model.entry(k).or_default();
        let start = p.header.fragment_offset as u32 * 8;
        let end = start + p.body.len() as u32;
        let mut overlap = false;
        if m.live && m.ranges.iter().any(|(a, b)| start < *b && *a < end) && !whole {
            out.count("probe_overlapping_or_duplicate_piece");
            overlap = true;
        }
        if !m.live && !m.ranges.is_empty() {
            m.ranges.clear();
        }
        let expect_complete = if whole {
            m.reset();
            true
        } else {
            if !m.live {
                out.count("buffers_allocated");
            }
            m.live = true;
            m.ranges.push((start, end));
            if p.header.flags.is_last_fragment() {
                m.total = Some(end);
            }
            m.covered()
        };
        let _ = overlap;
        let (h, b) = (p.header, Message::new(p.body.clone()));
        let res = catching(|| reasm.receive_packet(h, b));
        let res = match res {
            Ok(r) => r,
            Err(pi) => {
                out.violate(Violation::new(
                    "panic",
                    &panic_class(&pi),
                    format!("receive_packet panicked at {}:{}: {}", pi.file, pi.line, pi.msg),
                ));
                break;
            }
        };
        match res {
            ReceivePacketResult::Complete(hdr, msg) => {
                fnv(&mut shape, &[9]);
                out.count("completions");
                if !expect_complete {
                    out.violate(Violation::new(
                        "early-completion",
                        "",
                        format!("datagram {di} (key {k:?}) was returned although the pieces received since its last completion do not cover it: ranges {:?} total {:?}", m.ranges, m.total),
                    ));
                    break;
                }
                // what is returned must be the original datagram
                let want = header_of(dg);
                let got_body = msg.to_vec();
                let want_body: Vec<u8> = (0..dg.len as u32).map(|o| byte_at(k, o)).collect();
                let mut hdr_cmp = hdr;
                hdr_cmp.checksum = want.checksum;
                // the time-to-live comes from whichever offset-0 piece arrived last
                if case.dgrams.iter().any(|x| key(x) == k && x.ttl != dg.ttl) {
                    hdr_cmp.time_to_live = want.time_to_live;
                }
                if got_body != want_body {
                    let dup = arrivals_per_piece.values().any(|c| *c > 1);
                    out.violate(Violation::new(
                        "wrong-payload",
                        if overlapping_sources {
                            "overlapping-pieces"
                        } else if dup {
                            "duplicate-fragments"
                        } else {
                            "plain"
                        },
                        format!(
                            "datagram {di} (key {k:?}, {} bytes) reassembled to {} bytes{}",
                            want_body.len(),
                            got_body.len(),
                            match got_body.iter().zip(want_body.iter()).position(|(a, b)| a != b) {
                                Some(p) => format!(", first wrong byte at offset {p}"),
                                None => String::new(),
                            }
                        ),
                    ));
                    break;
                }
                if hdr_cmp != want {
                    out.violate(Violation::new(
                        "wrong-header",
                        "",
                        format!("datagram {di}: reassembled header {hdr:?} differs from the original {want:?}"),
                    ));
                    break;
                }
                let m = model.get_mut(&k).unwrap();
                m.reset();
                m.ranges.clear();
            }
            ReceivePacketResult::Incomplete(timeout, id, epoch) => {
                fnv(&mut shape, &[8]);
                if expect_complete {
                    out.violate(Violation::new(
                        "missed-completion",
                        "",
                        format!("the pieces received for datagram {di} (key {k:?}) cover it entirely ({:?}, total {:?}) but no datagram was returned", m.ranges, m.total),
                    ));
                    break;
                }
                let deadline = now + timeout.as_millis() as u64;
                m.expiry = deadline;
                timer_seq += 1;
                timers.push(Timer {
                    deadline,
                    seq: timer_seq,
                    fire: Box::new(move |r: &mut Reassembly| r.maybe_cull_segment(id, epoch)),
                });
            }
        }
        // buffers present == buffers the model says are live
        let live = model.values().filter(|m| m.live).count();
        let have = reasm.verif_buffers();
        if live != have {
            out.violate(Violation::new(
                "buffer-lifetime",
                if have > live { "buffer-leaked" } else { "buffer-lost" },
                format!("after {ev:?}: {have} reassembly buffers allocated, the reference model has {live}"),
            ));
            break;
        }
    }
    let distinct_keys: std::collections::BTreeSet<Key> = case.dgrams.iter().map(key).collect();
    if distinct_keys.len() < case.dgrams.len() {
        out.count("probe_buffer_id_reused");
    }
    if distinct_keys.len() > 1 {
        out.count("probe_interleaved_datagrams");
    }
    if overlapping_sources {
        out.count("probe_overlapping_sources");
    }
    out.sim_ms = now;
    fnv_u64(&mut trace, shape);
    fnv_u64(&mut trace, out.violations.len() as u64);
    out.trace_hash = trace;
    out.shape_hash = shape;
    out
}

fn pick_dt(rng: &mut Rng, timer_w: u64) -> u32 {
    if rng.below(100) >= timer_w {
        return *rng.pick(&[0u32, 0, 0, 1, 3, 50]);
    }
    *rng.pick(&[
        1_000u32, 5_000, 14_999, 15_000, 15_001, 16_000, 29_999, 30_001, 60_000, 254_999, 255_001,
    ])
}

pub fn generate(seed: u64, opts: &RunOpts) -> Case {
    let mut rng = Rng::new(seed);
    let avoid_dups = opts.avoids("no_duplicate_fragments");
    let avoid_overlap = opts.avoids("no_overlapping_pieces");
    let avoid_reuse = opts.avoids("no_buffer_reincarnation");
    let n = rng.range(1, 4) as usize;
    let mut dgrams: Vec<Dgram> = vec![];
    for i in 0..n {
        let len = match rng.below(10) {
            0 => rng.range(0, 40) as u16,
            1 | 2 | 3 => (rng.range(1, 60) * 8) as u16,
            4 | 5 | 6 => rng.range(41, 3000) as u16,
            7 => rng.range(3000, 20_000) as u16,
            8 => *rng.pick(&[65_515u16, 65_514, 65_508, 65_000]),
            _ => rng.range(1, 65_515) as u16,
        };
        let hops = rng.range(1, 4) as usize;
        let mut mtus = vec![];
        let mut cur = if len > 4000 {
            rng.range(576, 9000) as u16
        } else {
            rng.range(68, 1500) as u16
        };
        for _ in 0..hops {
            mtus.push(cur);
            if cur <= 68 {
                break;
            }
            cur = rng.range(68, cur as u64 - 1) as u16;
            // keep the number of pieces reasonable
            if len as u32 / ((cur as u32 - 20) & !7).max(8) > 300 {
                break;
            }
        }
        let mut d = Dgram {
            src: 1,
            dst: 1,
            proto: 17,
            id: 1000,
            ttl: rng.range(1, 255) as u8,
            len,
            mtus,
            parents: !avoid_overlap && rng.chance(1, 8),
        };
        // differ from an earlier datagram in exactly one identifying field, or in none
        if i > 0 {
            let base = dgrams[rng.below(i as u64) as usize].clone();
            d.src = base.src;
            d.dst = base.dst;
            d.proto = base.proto;
            d.id = base.id;
            match rng.below(if avoid_reuse { 4 } else { 6 }) {
                0 => d.src = base.src.wrapping_add(1 + rng.below(7) as u8),
                1 => {
                    if rng.chance(1, 3) && base.src % 8 != base.dst % 8 {
                        // the same two hosts, the other direction
                        d.src = base.dst;
                        d.dst = base.src;
                    } else {
                        d.dst = base.dst.wrapping_add(1 + rng.below(7) as u8);
                    }
                }
                2 => d.proto = if base.proto == 17 { 6 } else { *rng.pick(&[1u8, 17, 18, 145, 255]) },
                3 => {
                    d.id = match rng.below(5) {
                        0 => base.id.wrapping_add(256),
                        1 => base.id ^ 0x8000,
                        2 => base.id.swap_bytes(),
                        3 => base.id.wrapping_add(1),
                        _ => base.id.wrapping_add(1 + i as u16),
                    }
                }
                _ => {
                    // same buffer id: the same datagram sent again (its id
                    // re-used after completion, or a retransmission)
                    d.len = base.len;
                    if avoid_overlap || rng.chance(3, 4) {
                        d.mtus = base.mtus.clone();
                        d.parents = base.parents;
                    }
                }
            }
            if let Some(x) = dgrams.iter().find(|x| key(x) == key(&d)) {
                d.len = x.len;
                if avoid_overlap {
                    d.mtus = x.mtus.clone();
                    d.parents = x.parents;
                }
            }
        }
        dgrams.push(d);
    }
    // number of pieces per datagram (needs the real fragmenter; cheap)
    let mut scratch = Outcome::default();
    let counts: Vec<usize> = dgrams
        .iter()
        .map(|d| pieces_of(d, &mut scratch).map(|p| p.len()).unwrap_or(0))
        .collect();
    // arrival multiset: each piece 0..3 times
    let loss = *rng.pick(&[0u64, 0, 5, 20]);
    let dup = if avoid_dups { 0 } else { *rng.pick(&[0u64, 0, 10, 30]) };
    let mut arrivals: Vec<(u8, u16)> = vec![];
    for (di, &c) in counts.iter().enumerate() {
        for f in 0..c {
            let r = rng.below(100);
            let times = if r < loss {
                0
            } else if r < loss + dup {
                2 + rng.below(2)
            } else {
                1
            };
            for _ in 0..times {
                arrivals.push((di as u8, f as u16));
            }
        }
    }
    // order: as sent, reversed, shuffled completely, or local swaps
    match rng.below(4) {
        0 => {}
        1 => arrivals.reverse(),
        2 => {
            for i in (1..arrivals.len()).rev() {
                let j = rng.below(i as u64 + 1) as usize;
                arrivals.swap(i, j);
            }
        }
        _ => {
            for i in 1..arrivals.len() {
                if rng.chance(1, 4) {
                    arrivals.swap(i - 1, i);
                }
            }
        }
    }
    // late duplicates after completion
    if !avoid_dups && !avoid_reuse && rng.chance(1, 3) && !arrivals.is_empty() {
        for _ in 0..rng.range(1, 4) {
            let a = *rng.pick(&arrivals);
            arrivals.push(a);
        }
    }
    let timer_w = if avoid_reuse { 0 } else { *rng.pick(&[0u64, 2, 10, 30]) };
    let mut events = vec![];
    for (d, f) in arrivals {
        events.push(Ev::A {
            d,
            f,
            dt: pick_dt(&mut rng, timer_w),
        });
    }
    // let everything expire, then late arrivals of the pieces again
    if !avoid_reuse {
        for _ in 0..rng.below(3) {
            events.push(Ev::T {
                dt: pick_dt(&mut rng, 100),
            });
        }
        if rng.chance(1, 2) {
            for (di, &c) in counts.iter().enumerate() {
                for f in 0..c.min(400) {
                    if rng.chance(1, 2) {
                        events.push(Ev::A {
                            d: di as u8,
                            f: f as u16,
                            dt: pick_dt(&mut rng, timer_w),
                        });
                    }
                }
            }
        }
    }
    events.push(Ev::T { dt: 300_000 });
    Case { dgrams, events }
}

fn shrink_case(case: &Case) -> Vec<Case> {
    let mut out = vec![];
    let n = case.events.len();
    let mut size = n / 2;
    while size >= 1 {
        let mut start = 0;
        while start < n {
            let end = (start + size).min(n);
            let mut c = case.clone();
            c.events.drain(start..end);
            out.push(c);
            start += size;
        }
        if size == 1 || out.len() > 800 {
            break;
        }
        size /= 2;
    }
    for (i, e) in case.events.iter().enumerate() {
        let smaller = match e {
            Ev::A { d, f, dt } if *dt > 0 => Some(Ev::A { d: *d, f: *f, dt: 0 }),
            _ => None,
        };
        if let Some(x) = smaller {
            let mut c = case.clone();
            c.events[i] = x;
            out.push(c);
        }
    }
    if case.dgrams.len() > 1 {
        // drop a datagram nobody refers to
        for i in (0..case.dgrams.len()).rev() {
            let used = case.events.iter().any(|e| matches!(e, Ev::A { d, .. } if *d as usize % case.dgrams.len() == i));
            if !used && i == case.dgrams.len() - 1 {
                let n_old = case.dgrams.len();
                let mut c = case.clone();
                c.dgrams.pop();
                // keep the references of the remaining events stable
                for e in c.events.iter_mut() {
                    if let Ev::A { d, .. } = e {
                        *d = (*d as usize % n_old) as u8;
                    }
                }
                out.push(c);
                break;
            }
        }
    }
    for (i, d) in case.dgrams.iter().enumerate() {
        if d.mtus.len() > 1 {
            let mut c = case.clone();
            c.dgrams[i].mtus.pop();
            out.push(c);
        }
        if d.parents {
            let mut c = case.clone();
            c.dgrams[i].parents = false;
            out.push(c);
        }
        if d.len > 16 {
            for nl in [d.len / 2, d.len - 8, d.len - 1] {
                let mut c = case.clone();
                let k = key(d);
                for x in c.dgrams.iter_mut().filter(|x| key(x) == k) {
                    x.len = nl;
                }
                out.push(c);
            }
        }
        if d.ttl != 64 {
            let mut c = case.clone();
            c.dgrams[i].ttl = 64;
            out.push(c);
        }
    }
    out
}

impl Scenario for E3 {
    fn id(&self) -> &'static str {
        "C11"
    }

    fn run_seed(&self, seed: u64, opts: &RunOpts) -> (Value, Outcome) {
        let case = generate(seed, opts);
        let out = execute(&case);
        (serde_json::to_value(&case).unwrap(), out)
    }

    fn run_case(&self, case: &Value) -> Outcome {
        match serde_json::from_value::<Case>(case.clone()) {
            Ok(c) => execute(&c),
            Err(e) => {
                let mut o = Outcome::default();
                o.violate(Violation::new("harness-panic", "bad-case", format!("{e}")));
                o
            }
        }
    }

    fn shrink(&self, case: &Value) -> Vec<Value> {
        match serde_json::from_value::<Case>(case.clone()) {
            Ok(c) => shrink_case(&c)
                .into_iter()
                .map(|c| serde_json::to_value(&c).unwrap())
                .collect(),
            Err(_) => vec![],
        }
    }

    fn chunk(&self, _tier: &Tier) -> u64 {
        500
    }

    fn budget(&self, tier: &Tier) -> (u64, u64) {
        match tier {
            Tier::Quick => (800_000, 50),
            Tier::Thorough => (50_000_000, 1200),
        }
    }

    fn avoid_switches(&self) -> Vec<&'static str> {
        vec![
            "no_duplicate_fragments",
            "no_overlapping_pieces",
            "no_buffer_reincarnation",
        ]
    }

    fn describe(&self) -> ScenarioInfo {
        ScenarioInfo {
            engine: "E3 fragsim".into(),
            level: "exploration".into(),
            rule: "one run = 1..4 datagrams (same or differing in one identifying field) fragmented through 1..4 decreasing MTUs by the real fragmenter, then one seeded arrival schedule: permutation/interleaving, each piece 0-3 times, optional overlapping parent pieces, timer expiries placed between arrivals; non-trivial = at least one duplicate arrival; distinct = distinct hash of the arrival/timer sequence".into(),
            real_components: vec![
                "ipv4::reassembly::{Reassembly, Segment, Fragment, BitVec, BufId}".into(),
                "ipv4::fragmentation::fragment (checked per hop against a reference partition)".into(),
                "Message".into(),
            ],
            stub_components: vec![
                "the timer task of Ipv4Session::receive (sleep(timeout); maybe_cull_segment(id, epoch)) is a virtual timer list".into(),
                "network (simulator)".into(),
            ],
            fault_kinds: vec![
                "fragment loss".into(),
                "fragment duplication (before and after completion)".into(),
                "reordering and interleaving across datagrams".into(),
                "overlapping pieces from re-fragmentation".into(),
                "timer expiry at arbitrary points".into(),
            ],
            assumptions: vec![
                "datagrams that share (source, destination, protocol, identification) carry the same payload (a retransmission), otherwise mixing would be legitimate".into(),
                "the shipped Ipv4::demux builds a fresh Reassembly per packet, so the real session glue cannot be used; Reassembly is driven directly".into(),
            ],
        }
    }
}
