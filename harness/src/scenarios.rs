//! Registry: which scenarios decide which property.

use crate::common::Scenario;
use crate::dd_decode;
use crate::dd_modcmp;
use crate::e1;
use crate::e2::E2;
use crate::e2_arp;
use crate::e2_cksum;
use crate::e2_dhcp;
use crate::e2_dns;
use crate::e2_link;
use crate::e2_malformed;
use crate::e2_route;
use crate::e2_sock;
use crate::e2_tcp;
use crate::e2_start;
use crate::e2_udp;
use crate::e3;
use crate::ndl;

static C05: E2<e2_link::Link> = E2(e2_link::Link);
static C06: E2<e2_arp::ArpRes> = E2(e2_arp::ArpRes);
static C02: E2<e2_sock::Sock> = E2(e2_sock::Sock);
static C13: E2<e2_start::Start> = E2(e2_start::Start);
static C20: E2<e2_dns::Dns> = E2(e2_dns::Dns);
static C15: E2<e2_dhcp::Dhcp> = E2(e2_dhcp::Dhcp);
static C16: E2<e2_route::Route> = E2(e2_route::Route);
static C14: E2<e2_malformed::Malformed> = E2(e2_malformed::Malformed);
static C18: E2<e2_cksum::Cksum> = E2(e2_cksum::Cksum);
static C19: E2<ndl::Run> = E2(ndl::Run);
static C04: E2<e2_udp::UdpBind> = E2(e2_udp::UdpBind);
static C01_STACK: E2<e2_tcp::TcpStack> = E2(e2_tcp::TcpStack { open_focus: false, byzantine: false });
static C03_STACK: E2<e2_tcp::TcpStack> = E2(e2_tcp::TcpStack { open_focus: true, byzantine: false });
static C17_STACK: E2<e2_tcp::TcpStack> = E2(e2_tcp::TcpStack { open_focus: false, byzantine: true });

pub fn all() -> Vec<&'static dyn Scenario> {
    vec![&e1::C01, &C01_STACK, &e1::C03, &C03_STACK, &e1::C12, &e1::C17, &C17_STACK, &e3::C11, &C05, &C04, &C06, &C02, &C13, &C20, &C15, &e2_dhcp::C15_GEN, &C16, &C18, &C14, &dd_decode::C14_DEC, &dd_modcmp::C12_CMP, &C19, &ndl::C19_PARSE]
}

pub fn get(name: &str) -> Option<&'static dyn Scenario> {
    all().into_iter().find(|s| s.id() == name)
}

/// Scenario ids are `<property>` or `<property>.<part>`.
pub fn for_property(property: &str) -> Vec<&'static dyn Scenario> {
    all()
        .into_iter()
        .filter(|s| s.id() == property || s.id().starts_with(&format!("{property}.")))
        .collect()
}
