//! Deterministic simulation with fault injection for Elvis (see /verif/DESIGN.md).

mod common;
mod dd_decode;
mod dd_modcmp;
mod e1;
mod e2;
mod e2_arp;
mod e2_cksum;
mod e2_dhcp;
mod e2_dns;
mod e2_link;
mod e2_malformed;
mod e2_route;
mod e2_sock;
mod e2_tcp;
mod e2_start;
mod e2_udp;
mod e3;
mod ndl;
mod sim;
mod rng;
mod scenarios;
mod supervisor;
mod worker;

use common::Tier;

fn usage() -> ! {
    eprintln!("usage: dst check <ID> [--tier quick|thorough] [--seed N] | dst replay <file> | dst worker | dst list");
    std::process::exit(2);
}

fn main() {
    let args: Vec<String> = std::env::args().collect();
    if args.len() < 2 {
        usage();
    }
    match args[1].as_str() {
        "worker" => worker::worker_main(),
        "list" => {
            for s in scenarios::all() {
                println!("{} ({})", s.id(), s.describe().engine);
            }
        }
        "replay" => {
            let Some(path) = args.get(2) else { usage() };
            std::process::exit(supervisor::replay_file(std::path::Path::new(path)));
        }
        "check" => {
            let Some(id) = args.get(2) else { usage() };
            let mut tier = match std::env::var("VERIF_TIER").as_deref() {
                Ok("thorough") => Tier::Thorough,
                _ => Tier::Quick,
            };
            let mut seed: u64 = std::env::var("VERIF_SEED")
                .ok()
                .and_then(|s| s.parse().ok())
                .unwrap_or(20260923);
            let mut replay = None;
            let mut i = 3;
            while i < args.len() {
                match args[i].as_str() {
                    "--tier" => {
                        i += 1;
                        tier = match args.get(i).map(|s| s.as_str()) {
                            Some("thorough") => Tier::Thorough,
                            Some("quick") => Tier::Quick,
                            _ => usage(),
                        };
                    }
                    "--seed" => {
                        i += 1;
                        seed = args.get(i).and_then(|s| s.parse().ok()).unwrap_or_else(|| usage());
                    }
                    "--replay" => {
                        i += 1;
                        replay = args.get(i).cloned();
                    }
                    _ => usage(),
                }
                i += 1;
            }
            if let Some(path) = replay {
                std::process::exit(supervisor::replay_file(std::path::Path::new(&path)));
            }
            if id == "selftest" {
                std::process::exit(supervisor::selftest(tier, seed));
            }
            std::process::exit(supervisor::check(id, tier, seed));
        }
        _ => usage(),
    }
}
